"""C10 demo 2: 'the field of the collection seen by one of its own sensors is invariant'
fails for a Polyline when the sensor lies on the straight extension of one segment.

Root cause is not in the transform code but in the Polyline field function
(magpylib/_src/fields/field_BH_polyline.py, `mask1 = norm_o4 < 1e-15`): the on-line test
uses an absolute tolerance that is smaller than the rounding error of the projection, so
depending on round-off noise (which every collection move/rotate changes) the result is
NaN, the correct value, or a finite garbage value.
"""
import sys
import warnings
import numpy as np
import magpylib as magpy

warnings.simplefilter("ignore")
np.seterr(all="ignore")

loop = magpy.current.Polyline(current=1, vertices=[(0, 0, 0), (1, 0, 0), (1, 1, 0), (0, 0, 0)])
sens = magpy.Sensor(position=(7, 7, 0))  # on the extension of the segment (1,1,0)->(0,0,0)
coll = magpy.Collection(loop, sens)

# reference: same geometry, sensor displaced by 1e-9 off the line (regular point)
ref = magpy.getB(loop, (7, 7, 1e-9))[2]
print(f"reference Bz (sensor 1e-9 off the line): {ref:.6e}")

vals = [("initial", coll.getB()[2])]
ops = [
    ("move (1,0,0)", lambda: coll.move((1, 0, 0))),
    ("move (0,0,1)", lambda: coll.move((0, 0, 1))),
    ("move (.1,.2,.3)", lambda: coll.move((0.1, 0.2, 0.3))),
    ("move (1,1,0)", lambda: coll.move((1, 1, 0))),
    ("move (-3,0,0)", lambda: coll.move((-3, 0, 0))),
    ("rotate 90 z", lambda: coll.rotate_from_angax(90, "z")),
    ("rotate 45 z anchor 0", lambda: coll.rotate_from_angax(45, "z", anchor=0)),
    ("position = 0", lambda: setattr(coll, "position", (0, 0, 0))),
    ("orientation = None", lambda: setattr(coll, "orientation", None)),
]
for name, op in ops:
    op()
    vals.append((name, coll.getB()[2]))

bad = False
for name, v in vals:
    ok = np.isfinite(v) and abs(v - ref) <= 1e-6 * abs(ref)
    bad |= not ok
    print(f"{name:>22}: Bz seen by own sensor = {v: .6e} {'' if ok else '  <-- differs'}")

distinct = {("nan" if not np.isfinite(v) else f"{v:.6e}") for _, v in vals}
print("distinct values under pure collection operations:", sorted(distinct))
if bad and len(distinct) > 1:
    print("VIOLATION: field seen by the collection's own sensor is not invariant")
    sys.exit(1)
print("no violation")
sys.exit(0)
