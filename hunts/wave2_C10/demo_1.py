"""C10 demo 1: item assignment on the object returned by `Collection.orientation`
(path length > 1) changes the collection frame, the children do not follow.

Same family as the known `coll.position += d` (live getter), but a different getter /
code location: BaseGeo.orientation returns the internal Rotation object itself when the
path is longer than 1, and scipy Rotation supports `__setitem__`.
"""
import sys
import numpy as np
from scipy.spatial.transform import Rotation as R
import magpylib as magpy


def relpose(coll, child):
    co = R.from_quat(np.atleast_2d(coll.orientation.as_quat()))
    cp = np.atleast_2d(coll.position)
    p = np.atleast_2d(child.position)
    o = R.from_quat(np.atleast_2d(child.orientation.as_quat()))
    return co.inv().apply(p - cp), (co.inv() * o).as_matrix()


src = magpy.magnet.Cuboid(polarization=(0, 0, 1), dimension=(1, 1, 1), position=[(2, 0, 0)] * 3)
sens = magpy.Sensor(position=[(0, 1, 0)] * 3)
coll = magpy.Collection(src, sens, position=[(0, 0, 0)] * 3)

before = [relpose(coll, c) for c in (src, sens)]

# "assigning its orientation" at one path index, through the public getter
coll.orientation[1] = R.from_euler("z", 90, degrees=True)

after = [relpose(coll, c) for c in (src, sens)]
print("collection orientation (euler z):", coll.orientation.as_euler("xyz", degrees=True)[:, 2])
print("src position path (global):", src.position.tolist())
bad = False
for name, (p0, m0), (p1, m1) in zip(("src", "sens"), before, after):
    dp = np.abs(p0 - p1).max()
    dm = np.abs(m0 - m1).max()
    print(f"{name}: max change of relative position {dp:.3g}, of relative orientation {dm:.3g}")
    bad |= dp > 1e-9 or dm > 1e-9

# consequence: setting the orientation back through the setter now moves the children away
# from where they have always been
coll.orientation = R.from_quat([[0, 0, 0, 1]] * 3)
print("after coll.orientation = identity: src position path:", src.position.round(12).tolist())
moved = np.abs(src.position - np.array([(2, 0, 0)] * 3)).max() > 1e-9
print("children displaced although the collection is back at identity:", moved)

if bad:
    print("VIOLATION: collection frame changed, children did not follow")
    sys.exit(1)
print("no violation")
sys.exit(0)
