"""C18 violation 2: a copy(**kwargs) call that is REJECTED (raises) has already modified
other objects: a collection named by `parent=` has gained an unreachable child, and an object
named in `children=` has been pulled out of the original tree."""
import sys
import magpylib as magpy

viol = False

# (a) parent= applied, later keyword rejected (typo in a style keyword)
coll = magpy.Collection()
sens = magpy.Sensor()
try:
    sens.copy(parent=coll, style_colour="red")  # typo: 'colour'
    print("(a) no error raised?!")
except Exception as err:  # pylint: disable=broad-except
    print("(a) copy raised", type(err).__name__)
print("(a) coll.children after the failed call:", coll.children)
if len(coll.children) != 0:
    viol = True

# (a') same with a bad position
coll = magpy.Collection()
try:
    sens.copy(parent=coll, position="bad")
except Exception as err:  # pylint: disable=broad-except
    print("(a') copy raised", type(err).__name__)
print("(a') coll.children after the failed call:", coll.children)
if len(coll.children) != 0:
    viol = True

# (b) children= applied on the copy, later keyword rejected -> original tree was changed
a = magpy.magnet.Cuboid(polarization=(0, 0, 1), dimension=(1, 1, 1))
b = magpy.Sensor()
root = magpy.Collection(a, b)
try:
    root.copy(children=[a], position="bad")
except Exception as err:  # pylint: disable=broad-except
    print("(b) copy raised", type(err).__name__)
print("(b) root.children after the failed call:", root.children, "| a.parent is root:", a.parent is root)
if a.parent is not root or len(root.children) != 2:
    viol = True

print("VIOLATION PRESENT" if viol else "no violation")
sys.exit(1 if viol else 0)
