"""C18 violation 4: copy(style=original.style.as_dict()) (or style_model3d_data=original's list)
returns a copy that SHARES the Trace3d objects (and their kwargs dicts) with the original:
a later style change on either is visible on the other."""
import sys
import magpylib as magpy

o = magpy.magnet.Cuboid(polarization=(0, 0, 1), dimension=(1, 1, 1))
o.style.model3d.add_trace(
    backend="generic", constructor="Scatter3d", kwargs={"x": [0, 1], "y": [0, 1], "z": [0, 1]}
)

viol = False
for name, kw in (
    ("style=o.style.as_dict()", lambda: {"style": o.style.as_dict()}),
    ("style_model3d_data=o.style.model3d.data", lambda: {"style_model3d_data": o.style.model3d.data}),
    ("(control) no kwargs", lambda: {}),
):
    c = o.copy(**kw())
    same = c.style.model3d.data[0] is o.style.model3d.data[0]
    o.style.model3d.data[0].show = True
    c.style.model3d.data[0].show = False          # change the COPY only
    leaked = o.style.model3d.data[0].show is False
    o.style.model3d.data[0].show = True
    print(f"{name:45s} same Trace3d object: {same} | change of copy visible on original: {leaked}")
    if name.startswith("(control)"):
        continue
    viol = viol or same or leaked

print("VIOLATION PRESENT" if viol else "no violation")
sys.exit(1 if viol else 0)
