"""C18 violation 1: copy() crashes for an object whose style label is the empty string."""
import sys
import magpylib as magpy

viol = False
for make in (
    lambda: magpy.Sensor(style_label=""),
    lambda: magpy.magnet.Cuboid(polarization=(0, 0, 1), dimension=(1, 1, 1), style={"label": ""}),
    lambda: magpy.Collection(magpy.Sensor(), style_label=""),
):
    obj = make()
    try:
        cp = obj.copy()
        print(type(obj).__name__, "label='' -> copy ok, copy label:", repr(cp.style.label))
    except Exception as err:  # pylint: disable=broad-except
        viol = True
        print(type(obj).__name__, "label='' -> copy() raised", type(err).__name__, ":", err)

# control: assigning the label later gives the same result
s = magpy.Sensor()
s.style.label = ""
try:
    s.copy()
except IndexError as err:
    viol = True
    print("Sensor with style.label = '' ->", type(err).__name__, err)

print("VIOLATION PRESENT" if viol else "no violation")
sys.exit(1 if viol else 0)
