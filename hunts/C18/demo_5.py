"""C18 violation 5 (side effect outside the copy): copy(style=<dict>, style_xxx=...) writes the
style_xxx entries INTO THE CALLER'S dict, so the keyword override leaks into every later use of
that dict (e.g. the next copy)."""
import sys
import magpylib as magpy

o = magpy.Sensor()
base = {"opacity": 0.5}
c1 = o.copy(style=base, style_color="red")
print("caller's dict after the call:", base)
c2 = o.copy(style=base)                       # should only get opacity
print("second copy color:", c2.style.color)
viol = base != {"opacity": 0.5} or c2.style.color is not None
print("VIOLATION PRESENT" if viol else "no violation")
sys.exit(1 if viol else 0)
