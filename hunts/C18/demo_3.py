"""C18 violation 3: Collection.copy(children=...) / (sources=...) silently removes the named
objects from the ORIGINAL collection (keyword override is not confined to the copy, original
tree is not left untouched), although Collection(...)/add() would refuse them without
override_parent=True."""
import sys
import magpylib as magpy

a = magpy.magnet.Cuboid(polarization=(0, 0, 1), dimension=(1, 1, 1))
b = magpy.Sensor()
root = magpy.Collection(a, b)

cp = root.copy(children=root.children)   # "a copy with the same children"
print("original children after copy:", root.children)
print("copy children               :", cp.children)
print("a.parent is root:", a.parent is root, "| a.parent is copy:", a.parent is cp)

viol = len(root.children) != 2 or a.parent is not root

# for comparison: the constructor refuses this without override_parent
try:
    magpy.Collection(a)
    print("Collection(a) accepted a child that has a parent")
except Exception as err:  # pylint: disable=broad-except
    print("Collection(a) ->", type(err).__name__, "(constructor protects the original tree)")

print("VIOLATION PRESENT" if viol else "no violation")
sys.exit(1 if viol else 0)
