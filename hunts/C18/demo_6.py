"""C18 violation 6 (low): copy() of a deeply nested collection tree fails with RecursionError
at a nesting depth (~200) where every other operation (move, getB, children_all) still works."""
import sys
import magpylib as magpy

depth = 200
root = magpy.Collection(magpy.magnet.Sphere(polarization=(0, 0, 1), diameter=1))
for _ in range(depth):
    root = magpy.Collection(root)
root.move((1, 0, 0))
print("move ok, getB ok:", root.getB((0, 0, 3)), "len(children_all):", len(root.children_all))
viol = False
try:
    root.copy()
    print("copy ok")
except RecursionError as err:
    viol = True
    print("copy() raised RecursionError (recursion limit %d)" % sys.getrecursionlimit())
print("VIOLATION PRESENT" if viol else "no violation")
sys.exit(1 if viol else 0)
