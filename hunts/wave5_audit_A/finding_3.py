"""Neighbour of the 0563851 claim ('a rejected dictionary leaves nothing half applied'): that holds for a dictionary
assigned to a sub-style, but a rejected dictionary assigned to the style itself (obj.style = {...}), given to
update()/set_children_styles()/defaults.update() or to the constructor still leaves the entries applied that
come (alphabetically) before the rejected one."""
import sys; sys.path.pop(0)
import magpylib as magpy
print(magpy.__file__)
half = []
def attempt(f):
    try: f(); return "accepted"
    except Exception as e: return type(e).__name__
mk = lambda **kw: magpy.magnet.Cuboid(polarization=(0, 0, 1), dimension=(1, 1, 1), **kw)
c = mk(); r = attempt(lambda: setattr(c.style, "path", {"line_width": 3, "marker_size": -7}))
print("c.style.path = {line_width: 3, marker_size: -7}      ->", r, "| line.width left:", c.style.path.line.width)
if c.style.path.line.width is not None: half.append("sub-style assignment")
c = mk(); r = attempt(lambda: setattr(c, "style", {"color": "red", "opacity": 7}))
print("c.style = {color: red, opacity: 7}                    ->", r, "| color left:", c.style.color)
if c.style.color is not None: half.append("style assignment")
c = mk(); r = attempt(lambda: c.style.update(description_show=False, path_marker_size=-7))
print("c.style.update(description_show=False, path_marker_size=-7) ->", r, "| description.show left:", c.style.description.show)
if c.style.description.show is not None: half.append("update")
c = mk(); r = attempt(lambda: magpy.Collection(c).set_children_styles(color="red", opacity=7))
print("set_children_styles(color=red, opacity=7)             ->", r, "| color left:", c.style.color)
if c.style.color is not None: half.append("set_children_styles")
c = mk(style_color="red", style_opacity=7); r = attempt(lambda: c.style)
print("Cuboid(style_color=red, style_opacity=7).style        ->", r, "| second access gives color:", c.style.color, "opacity:", c.style.opacity)
if c.style.color is not None: half.append("constructor")
r = attempt(lambda: magpy.defaults.display.style.update(base_color="red", magnet_magnetization_show=5))
print("defaults.display.style.update(base_color=red, magnet_magnetization_show=5) ->", r, "| base.color left:", magpy.defaults.display.style.base.color)
if magpy.defaults.display.style.base.color is not None: half.append("defaults.update")
magpy.defaults.reset()
print("rejected input leaves its valid part applied for:", half)
sys.exit(1 if half else 0)
