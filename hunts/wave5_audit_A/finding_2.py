"""Sub-style objects held by the user go stale after ANY update of the parent style (update(), obj.style = {...},
set_children_styles), also when the update does not mention that sub-style: later edits through the handle
are silently lost. prev kept the objects (in-place merge); 0563851 (update on a copy) made them stale,
b777ab6 (rebuild) keeps it that way. Same as the pinned upstream commit."""
import sys; sys.path.pop(0)
import magpylib as magpy
print(magpy.__file__)
lost = []
c = magpy.magnet.Cuboid(polarization=(0, 0, 1), dimension=(1, 1, 1))
mag, path = c.style.magnetization, c.style.path
c.style.update(color="red")                       # does not mention magnetization or path
mag.show = False; path.line.width = 7
print("after style.update(color='red'):   same objects:", mag is c.style.magnetization, path is c.style.path,
      "| edits visible:", c.style.magnetization.show, c.style.path.line.width)
if c.style.magnetization.show is not False or c.style.path.line.width != 7: lost.append("update")
mag = c.style.magnetization
magpy.Collection(c).set_children_styles(opacity=0.5)
mag.mode = "arrow"
print("after set_children_styles(opacity): same object:", mag is c.style.magnetization, "| edit visible:", c.style.magnetization.mode)
if c.style.magnetization.mode != "arrow": lost.append("set_children_styles")
mag = c.style.magnetization
c.style = {"label": "x"}
mag.mode = "color"
print("after c.style = {'label': 'x'}:     same object:", mag is c.style.magnetization, "| edit visible:", c.style.magnetization.mode)
if c.style.magnetization.mode != "color": lost.append("style=dict")
d = magpy.defaults.display.style.magnet.magnetization
magpy.defaults.display.style.magnet.update(magnetization_show=True)
d.mode = "arrow"
print("defaults: after magnet.update(...):  same object:", d is magpy.defaults.display.style.magnet.magnetization,
      "| edit visible:", magpy.defaults.display.style.magnet.magnetization.mode)
if magpy.defaults.display.style.magnet.magnetization.mode != "arrow": lost.append("defaults")
magpy.defaults.reset()
print("edits through a held sub-style handle lost after:", lost)
sys.exit(1 if lost else 0)
