"""Unknown property below `arrows` (ArrowCS/ArrowSingle have no **kwargs) given through update()/style=/
constructor/set_children_styles/defaults.update: TypeError from the class constructor instead of the
AttributeError 'X has no property ...' (b777ab6: update() rebuilds sub-properties with type(current)(**v)).
Dictionary assignment to the same sub-style still gives AttributeError -> two error types for one mistake."""
import sys; sys.path.pop(0)
import magpylib as magpy
print(magpy.__file__)
res = {}
def run(label, f):
    try:
        f(); res[label] = "no error"
    except Exception as e:
        res[label] = f"{type(e).__name__}: {str(e).splitlines()[0][:90]}"
    print(f"{label:45s} {res[label]}")
s = magpy.Sensor()
run("s.style.update(arrows_foo=1)", lambda: s.style.update(arrows_foo=1))
run("s.style.update(arrows_x_foo=1)", lambda: s.style.update(arrows_x_foo=1))
run("s.style = {'arrows': {'foo': 1}}", lambda: setattr(s, "style", {"arrows": {"foo": 1}}))
run("s.style.arrows = {'foo': 1}  (assignment)", lambda: setattr(s.style, "arrows", {"foo": 1}))
run("Sensor(style_arrows_foo=1).style", lambda: magpy.Sensor(style_arrows_foo=1).style)
run("Collection(s).set_children_styles(arrows_foo=1)", lambda: magpy.Collection(magpy.Sensor()).set_children_styles(arrows_foo=1))
run("defaults.update(display_style_sensor_arrows_foo=1)", lambda: magpy.defaults.update(display_style_sensor_arrows_foo=1))
run("s.style.update(path={'self': 1})", lambda: s.style.update(path={"self": 1}))
bad = [k for k, v in res.items() if v.startswith("TypeError")]
print("TypeError instead of AttributeError for:", bad)
sys.exit(1 if bad else 0)
