"""C20 violation 3: styles of different objects are not independent: Trace3d sub-style objects
of model3d.data end up SHARED between two objects
 (a) by the library itself in TriangularMesh.to_TriangleCollection(),
 (b) by the natural 'take over the style of another object' idioms
     b.style.update(a.style.as_dict())  /  b.style = a.style.as_dict()
     (whereas Cuboid(style=a.style.as_dict()) makes an independent copy)."""
import sys
import magpylib as magpy

bad = 0
trace = {"backend": "generic", "constructor": "Scatter3d",
         "kwargs": {"x": [0, 1], "y": [0, 0], "z": [0, 0], "mode": "lines"}}

mesh = magpy.magnet.TriangularMesh.from_ConvexHull(
    polarization=(0, 0, 1), points=[(0, 0, 0), (1, 0, 0), (0, 1, 0), (0, 0, 1)])
mesh.style.model3d.add_trace(trace)
coll = mesh.to_TriangleCollection()
coll.style.model3d.data[0].show = False          # change the style of the COLLECTION only
print("(a) mesh trace show after editing the collection's trace:", mesh.style.model3d.data[0].show)
if mesh.style.model3d.data[0].show is not True:
    bad = 1

mk = lambda **k: magpy.magnet.Cuboid(polarization=(0, 0, 1), dimension=(1, 1, 1), **k)
a = mk()
a.style.model3d.add_trace(trace)
b = mk()
b.style.update(a.style.as_dict())
c = mk()
c.style = a.style.as_dict()
d = mk(style=a.style.as_dict())
b.style.model3d.data[0].scale = 5
print("(b) a.scale after b.style.model3d.data[0].scale = 5:", a.style.model3d.data[0].scale)
print("    same instance: update():", a.style.model3d.data[0] is b.style.model3d.data[0],
      "| style=dict:", a.style.model3d.data[0] is c.style.model3d.data[0],
      "| constructor:", a.style.model3d.data[0] is d.style.model3d.data[0])
if a.style.model3d.data[0].scale != 1:
    bad = 1
sys.exit(bad)
