"""C20 violation 6: invalid style names/values given to a CONSTRUCTOR are not rejected there.
The error is raised exactly once, by whatever later operation first touches obj.style (copy(),
describe() of the parent collection, show(), ...). After that single error the object silently
keeps a partially applied style: valid keywords of the same call are lost for good."""
import sys
import magpylib as magpy

bad = 0
try:
    c = magpy.magnet.Cuboid(polarization=(0, 0, 1), dimension=(1, 1, 1),
                            style_color="red", style_opacity=2, style_path_show=False)
    print("constructor with style_opacity=2: ACCEPTED")
    bad = 1
except (AssertionError, ValueError, AttributeError) as e:
    print("constructor rejected:", type(e).__name__)
    sys.exit(0)

print("getB works:", c.getB((1, 1, 1)).shape, "| repr works:", repr(c)[:6])
col = magpy.Collection(c)
try:
    col.describe(return_string=True)
    print("describe ok")
except AssertionError as e:
    print("first unrelated operation (Collection.describe) RAISED:", str(e).splitlines()[0])
try:
    fig = magpy.show(c, backend="plotly", return_fig=True)
    print("second operation (show) works without any error; trace opacity:", fig.data[0].opacity)
except AssertionError as e:
    print("show raised", e)
print("style now: color=%r opacity=%r path.show=%r   (path_show=False was given, and is lost)"
      % (c.style.color, c.style.opacity, c.style.path.show))
if c.style.path.show is not False:
    bad = 1
sys.exit(bad)
