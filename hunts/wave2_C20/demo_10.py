"""C20 observation 10 (low, undocumented public method): TriangularMesh.get_trace() called
directly (outside show(), which works on a temporary copy) writes into the object's own style:
magnetization.mode (and magnetization.show) are overwritten for a disconnected mesh."""
import sys
import warnings
import numpy as np
import magpylib as magpy

warnings.simplefilter("ignore")
v = np.array([(0, 0, 0), (1, 0, 0), (0, 1, 0), (0, 0, 1)], float)
f = np.array([[0, 2, 1], [0, 1, 3], [1, 2, 3], [0, 3, 2]])
m = magpy.magnet.TriangularMesh(
    polarization=(0, 0, 1), vertices=np.vstack([v, v + 5]), faces=np.vstack([f, f + 4]),
    check_disconnected="skip", style_mesh_disconnected_show=True,
    style_mesh_disconnected_colorsequence=["red", "blue"],
    style_magnetization_show=True, style_magnetization_mode="color", style_color="grey",
    style_orientation_show=False,
)
before = (m.style.magnetization.show, m.style.magnetization.mode)
try:
    m.get_trace()
except Exception as e:  # pylint: disable=broad-except
    print("get_trace raised", type(e).__name__, e)
after = (m.style.magnetization.show, m.style.magnetization.mode)
print("magnetization (show, mode) before:", before, "after:", after)
sys.exit(1 if before != after else 0)
