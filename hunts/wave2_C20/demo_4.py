"""C20 violation 4: invalid style NAMES that coincide with a method of the style classes
(`copy`, `update`, `reset`, also nested: `path_copy`, ...) are not rejected by the constructor
keywords / update() / dictionary assignment: the value silently replaces the method on the
style instance and the style object is broken from then on."""
import sys
import magpylib as magpy

bad = 0
mk = lambda **k: magpy.magnet.Cuboid(polarization=(0, 0, 1), dimension=(1, 1, 1), **k)

c = mk(style_copy=5, style_color="red")        # 'copy' is not a style property
try:
    st = c.style
    print("Cuboid(style_copy=5): accepted, c.style.copy =", st.copy)
    bad = 1
except (AttributeError, ValueError) as e:
    print("rejected:", type(e).__name__)
try:
    magpy.show(c, backend="plotly", return_fig=True)
    print("show ok")
except Exception as e:  # pylint: disable=broad-except
    print("show() afterwards RAISED", type(e).__name__, e)

d = mk()
try:
    d.style.update(path_update=1)              # nested invalid name
    print("update(path_update=1): accepted, d.style.path.update =", d.style.path.update)
    bad = 1
except (AttributeError, ValueError) as e:
    print("rejected:", type(e).__name__)
try:
    d.style.path = {"show": False}
except Exception as e:  # pylint: disable=broad-except
    print("d.style.path = {...} afterwards RAISED", type(e).__name__, e)

# for comparison: a name that is not a method is rejected
try:
    mk().style.update(path_foo=1)
    print("path_foo accepted")
except AttributeError:
    print("update(path_foo=1): rejected (AttributeError) as expected")

# the defaults: reset() itself can be destroyed, defaults can then not be restored any more
try:
    magpy.defaults.update(reset=1)
    print("magpy.defaults.update(reset=1): accepted")
    bad = 1
    try:
        magpy.defaults.reset()
    except TypeError as e:
        print("magpy.defaults.reset() RAISED TypeError:", e)
    del magpy.defaults.__dict__["reset"]       # repair for the rest of the process
    magpy.defaults.reset()
except (AttributeError, ValueError) as e:
    print("rejected:", type(e).__name__)
sys.exit(bad)
