"""C20 violation 8 (minor): invalid colour strings starting with 'rgb' are accepted, the 4th
and last characters are dropped without being looked at."""
import sys
import magpylib as magpy

bad = 0
c = magpy.magnet.Cuboid(polarization=(0, 0, 1), dimension=(1, 1, 1))
for val in ("rgbx1,2,3x", "rgb[1,2,3]", "rgb:1,2,3;"):
    try:
        c.style.color = val
        print(f"{val!r}: ACCEPTED -> {c.style.color!r}")
        bad = 1
    except ValueError:
        print(f"{val!r}: rejected")
for val in ("rgba(1,2,3)", "rgb(300,0,0)", "notacolor"):
    try:
        c.style.color = val
        print(f"{val!r}: accepted -> {c.style.color!r}")
    except ValueError:
        print(f"{val!r}: rejected (as expected)")
sys.exit(bad)
