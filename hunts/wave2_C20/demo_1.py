"""C20 violation 1: giving description/legend as a *string* (supported shortcut for the text)
replaces the whole sub-style, so the sibling leaf `show` is reset -> the object's own
`description.show` / `legend.show` is lost, also when the string comes from show()."""
import sys
import magpylib as magpy

bad = 0
mk = lambda **k: magpy.magnet.Cuboid(polarization=(0, 0, 1), dimension=(1, 1, 1), **k)

# (a) attribute assignment: equivalent notations give different results
a = mk(style_description_show=False)
a.style.description = "hello"          # string shortcut
b = mk(style_description_show=False)
b.style.description.text = "hello"     # leaf assignment
c = mk(style_description_show=False)
c.style.description = {"text": "hello"}  # dictionary
print("a (str)      :", a.style.description)
print("b (leaf)     :", b.style.description)
print("c (dict)     :", c.style.description)
if a.style.description.show is not False:
    print("-> description.show of the object was reset by assigning the text as a string")
    bad = 1

# (b) same for legend and for update()
d = mk(style_legend_show=False)
d.style.update(legend="my legend")
print("d legend     :", d.style.legend)
if d.style.legend.show is not False:
    bad = 1

# (c) one call, two notations: one of the two values is silently dropped
e = mk()
e.style.update(description="hello", description_show=False)
f = mk()
f.style.update(description_show=False, description="hello")
print("e            :", e.style.description)
print("f            :", f.style.description)
if e.style.description.text != "hello" or f.style.description.show is not False:
    print("-> a value given in the same update() call was silently dropped")
    bad = 1

# (d) precedence in show(): the show() call only gives the *text*, the object says show=False,
# the effective value of the leaf description.show must stay False (object > defaults)
g = mk(style_description_show=False)
fig1 = magpy.show(g, backend="plotly", return_fig=True, style_description_text="hello")
fig2 = magpy.show(g, backend="plotly", return_fig=True, style_description="hello")
n1, n2 = fig1.data[0].name, fig2.data[0].name
print("legend entry with style_description_text='hello':", repr(n1))
print("legend entry with style_description='hello'     :", repr(n2))
if n1 != n2:
    print("-> object's description.show=False overridden by the DEFAULT although show() gave no value for it")
    bad = 1
sys.exit(bad)
