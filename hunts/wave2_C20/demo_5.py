"""C20 violation 5: show() and Collection.set_children_styles() validate a style keyword only if
at least one of the concerned objects has a style property with that first name; otherwise
invalid NAMES below the first level and invalid VALUES are silently accepted."""
import sys
import magpylib as magpy

bad = 0
sens = magpy.Sensor()
mag = magpy.magnet.Cuboid(polarization=(0, 0, 1), dimension=(1, 1, 1))

def attempt(label, func):
    global bad
    try:
        func()
        print(f"{label}: ACCEPTED silently")
        bad = 1
    except (AttributeError, ValueError, AssertionError) as e:
        print(f"{label}: rejected ({type(e).__name__})")

S = lambda *o, **k: magpy.show(*o, backend="plotly", return_fig=True, **k)
print("with a magnet among the objects (reference behaviour):")
for kw in ({"style_magnetization_foo": 1}, {"style_magnetization_show": "bad"}):
    try:
        S(mag, **kw); print("  ", kw, "accepted")
    except (AttributeError, ValueError, AssertionError) as e:
        print("  ", kw, "rejected", type(e).__name__)
print("with a sensor only:")
attempt("  show(sensor, style_magnetization_foo=1)      [invalid name] ", lambda: S(sens, style_magnetization_foo=1))
attempt("  show(sensor, style_magnetization_show='bad') [invalid value]", lambda: S(sens, style_magnetization_show="bad"))
attempt("  show(magnet, style_pixel_size=-1)            [invalid value]", lambda: S(mag, style_pixel_size=-1))
attempt("  show(magnet, style_sizemode='bad')           [invalid value]", lambda: S(mag, style_sizemode="bad"))
col = magpy.Collection(magpy.Sensor(), magpy.Sensor())
attempt("  set_children_styles(magnetization_foo=1)", lambda: col.set_children_styles(magnetization_foo=1))
attempt("  set_children_styles(opacity=7) on empty collection", lambda: magpy.Collection().set_children_styles(opacity=7))
sys.exit(bad)
