"""C20 violation 7: defaults.reset() and defaults.display.style.reset() REPLACE the nested
default objects (all other ways of changing a default keep them since the dict-merge repair). A reference taken
before the reset (a very common idiom: `st = magpy.defaults.display.style`) is detached:
later assignments through it are accepted without error but never take effect."""
import sys
import magpylib as magpy

bad = 0
st = magpy.defaults.display.style
magpy.defaults.reset()
st.magnet.magnetization.show = False           # attribute assignment, accepted
eff = magpy.defaults.display.style.magnet.magnetization.show
print("after defaults.reset(): same object:", st is magpy.defaults.display.style,
      "| value seen by the library:", eff)
if eff is not False:
    bad = 1
magpy.defaults.reset()

mg = magpy.defaults.display.style.magnet
magpy.defaults.display.style.reset()
mg.magnetization.color.north = "black"
eff = magpy.defaults.display.style.magnet.magnetization.color.north
print("after defaults.display.style.reset(): value seen by the library:", eff)
if eff != "black":
    bad = 1
magpy.defaults.reset()
sys.exit(bad)
