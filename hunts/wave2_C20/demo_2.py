"""C20 violation 2: the value of the leaf `kwargs` (also inside `updatefunc` results) of a model3d
trace is a plain dictionary of backend keyword arguments, but when the trace is given as a
dictionary / through add_trace(**kw) / Trace3d(...) its keys are split at underscores by the magic
underscore parser ({'solid_capstyle': 'round'} -> {'solid': {'capstyle': 'round'}}); attribute
assignment stores it unchanged.  The notations are not equivalent and the mangled form breaks
the matplotlib (and pyvista) backends."""
import sys
import matplotlib
matplotlib.use("Agg")
import matplotlib.pyplot as plt
import numpy as np
import magpylib as magpy

bad = 0
kw = {"xs": np.array([0.0, 1.0]), "ys": np.array([0.0, 0.0]), "zs": np.array([0.0, 0.0]),
      "solid_capstyle": "round"}          # valid Line2D keyword
ca = {"x": "xs", "y": "ys", "z": "zs"}
mk = lambda: magpy.magnet.Cuboid(polarization=(0, 0, 1), dimension=(1, 1, 1))

o1 = mk()
o1.style.model3d.add_trace(backend="matplotlib", constructor="plot", kwargs=kw, coordsargs=ca)
o2 = mk()
o2.style.model3d.data = [{"backend": "matplotlib", "constructor": "plot", "kwargs": kw, "coordsargs": ca}]
o3 = mk()
o3.style.model3d.add_trace(backend="matplotlib", constructor="plot", coordsargs=ca)
o3.style.model3d.data[0].kwargs = kw      # attribute assignment
t4 = magpy.graphics.Trace3d(backend="matplotlib", constructor="plot", kwargs=kw, coordsargs=ca)

for name, k in (("add_trace(**kw)", o1.style.model3d.data[0].kwargs),
                ("data=[dict]", o2.style.model3d.data[0].kwargs),
                ("attribute", o3.style.model3d.data[0].kwargs),
                ("Trace3d(...)", t4.kwargs)):
    keys = sorted(k)
    print(f"{name:16s} keys: {keys}")
    if "solid_capstyle" not in k:
        bad = 1

for name, o in (("add_trace(**kw)", o1), ("attribute", o3)):
    ax = plt.figure().add_subplot(projection="3d")
    try:
        magpy.show(o, canvas=ax, backend="matplotlib")
        print(f"show with {name}: ok")
    except Exception as e:  # pylint: disable=broad-except
        print(f"show with {name}: RAISED {type(e).__name__}: {e}")
        bad = 1
sys.exit(bad)
