"""C20 observation 9 (low): (a) `obj.style = None` is accepted but does nothing, whereas None
assigned to any sub-style resets it; (b) every update()/dict assignment re-creates the Trace3d
objects of model3d.data, so a trace reference held by the user is silently detached
(a held reference to any other sub-style, e.g. style.path, stays attached)."""
import sys
import magpylib as magpy

bad = 0
c = magpy.magnet.Cuboid(polarization=(0, 0, 1), dimension=(1, 1, 1), style_color="red",
                        style_path_show=False)
c.style.path = None
c.style = None
print("(a) after style.path=None: path.show =", c.style.path.show, "| after style=None: color =", c.style.color)
if c.style.color is not None:
    bad = 1

c.style.model3d.add_trace(backend="generic", constructor="Scatter3d",
                          kwargs={"x": [0, 1], "y": [0, 0], "z": [0, 0]})
t = c.style.model3d.data[0]
p = c.style.path
c.style.update(opacity=0.5)                    # unrelated leaf
t.show = False
p.numbering = True
print("(b) trace.show seen by object:", c.style.model3d.data[0].show,
      "| path.numbering seen by object:", c.style.path.numbering)
if c.style.model3d.data[0].show is not False:
    bad = 1
sys.exit(bad)
