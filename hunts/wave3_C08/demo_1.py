"""C08 candidate 1: output='dataframe' is not reproducible when the observers are
given as positions (array_like) - the 'sensor' column holds the memory address of a
throw-away internal Sensor, so calling again does NOT give the identical result.

Clause: "... and calling again gives the identical result."
"""
import sys

import numpy as np

import magpylib as magpy

src = magpy.magnet.Cuboid(polarization=(0, 0, 1), dimension=(1, 1, 1), style_label="cube")
obs = np.array([(2.0, 0, 0), (3.0, 0, 0)])

df1 = magpy.getB(src, obs, output="dataframe")
keep = [magpy.Sensor() for _ in range(3)]  # any allocation in between moves the address
df2 = magpy.getB(src, obs, output="dataframe")

print("first call :", df1["sensor"].unique())
print("second call:", df2["sensor"].unique())
print("numeric columns identical:", df1[["Bx", "By", "Bz"]].equals(df2[["Bx", "By", "Bz"]]))
print("DataFrames identical     :", df1.equals(df2))

# same through the method interface and the other fields
d3 = src.getH((2, 0, 0), output="dataframe")
keep.append(magpy.Sensor())
d4 = src.getH((2, 0, 0), output="dataframe")
print("src.getH twice identical :", d3.equals(d4), d3["sensor"].iloc[0], "vs", d4["sensor"].iloc[0])

# control: with an explicit Sensor object the result is reproducible
sens = magpy.Sensor(pixel=obs)
c1 = magpy.getB(src, sens, output="dataframe")
c2 = magpy.getB(src, sens, output="dataframe")
print("control with Sensor object identical:", c1.equals(c2))

violation = (not df1.equals(df2)) or (not d3.equals(d4))
print("VIOLATION" if violation else "no violation")
sys.exit(1 if violation else 0)
