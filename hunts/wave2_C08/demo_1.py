"""C08 demo 1: two overlapping getB calls (threads) on a shared source leave the
source with a permanently padded path after BOTH calls have returned.

getBH_level2 pads ("tiles") the paths of shorter objects *in place on the object*
and puts the remembered originals back in a finally block.  When two calls overlap
and do not finish in LIFO order, the second call remembers the already padded path
as "the original" and writes it back after the first call has restored the true one.

Deterministic: the interleaving is forced with threading.Event objects inside two
CustomSource field functions (public API only). Exit 1 if the violation is present.
"""
import sys
import threading
import numpy as np
import magpylib as magpy

shared = magpy.magnet.Cuboid(polarization=(0, 0, 1), dimension=(1, 1, 1))  # static, path len 1
sens5 = magpy.Sensor(position=np.linspace((2, 0, 0), (3, 0, 0), 5))  # path len 5
sens7 = magpy.Sensor(position=np.linspace((2, 0, 0), (3, 0, 0), 7))  # path len 7

a_inside, b_inside, a_done = threading.Event(), threading.Event(), threading.Event()
armed = [False]


def ff_a(field, observers):
    if armed[0]:
        a_inside.set()  # call A has padded `shared` to length 5
        b_inside.wait(10)  # wait until call B has taken its snapshot and padded to 7
    return np.zeros_like(observers, dtype=float)


def ff_b(field, observers):
    if armed[0]:
        b_inside.set()
        a_done.wait(10)  # let call A finish (and restore) first
    return np.zeros_like(observers, dtype=float)


cust_a = magpy.misc.CustomSource(field_func=ff_a)
cust_b = magpy.misc.CustomSource(field_func=ff_b)
armed[0] = True

pos_before = shared._position.copy()
ref_before = magpy.getB(shared, (2, 0, 0))
print("before: path length of shared source =", len(shared._position), "position =", shared.position)

res = {}


def call_a():
    res["a"] = magpy.getB([shared, cust_a], sens5)
    a_done.set()


def call_b():
    a_inside.wait(10)
    res["b"] = magpy.getB([shared, cust_b], sens7)


ta, tb = threading.Thread(target=call_a), threading.Thread(target=call_b)
ta.start(); tb.start(); ta.join(20); tb.join(20)

print("both calls returned:", sorted(res), [r.shape for r in res.values()])
print("after : path length of shared source =", len(shared._position))
print("after : shared.position =\n", shared.position)
print("after : len(shared.orientation) =", len(shared._orientation))
shape_after = magpy.getB(shared, (2, 0, 0)).shape
print("getB(shared, point) shape before:", ref_before.shape, " after:", shape_after)

violated = shared._position.shape != pos_before.shape or shape_after != ref_before.shape
print("VIOLATION" if violated else "ok")
sys.exit(1 if violated else 0)
