"""C08 demo 1b (probabilistic companion of demo_1): plain ThreadPoolExecutor, no forced
interleaving. Read-only field computations on a shared static source race on the in-place
path padding: some calls raise and the source usually ends with a padded path. Exit 1 if seen."""
import sys
import threading, numpy as np, magpylib as magpy
from concurrent.futures import ThreadPoolExecutor
shared = magpy.magnet.Cuboid(polarization=(0, 0, 1), dimension=(1, 1, 1))
sensors = [magpy.Sensor(pixel=np.random.rand(40,40,3)+2, position=np.linspace((2,0,0),(3,0,0),n)) for n in (3,5,7,11)]
errs = []
def work(i):
    try:
        magpy.getB(shared, sensors[i % 4])
    except Exception as e:
        errs.append(type(e).__name__)
with ThreadPoolExecutor(8) as ex:
    list(ex.map(work, range(400)))
print("errors:", len(errs), set(errs), "final path len:", len(shared._position))
bad = len(errs) > 0 or len(shared._position) != 1
print("VIOLATION" if bad else "not observed in this run")
sys.exit(1 if bad else 0)
