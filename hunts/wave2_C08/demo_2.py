"""C08 demo 2: repeated identical getB(..., output='dataframe') calls do not give the
identical result when observers are given as positions (array_like).

The anonymous Sensor created internally for the positions is labelled with its
id() ("Sensor(id=...)") in the 'sensor' column, and a new one is created per call.
Exit 1 if two consecutive identical calls return different DataFrames.
"""
import sys
import magpylib as magpy

src = magpy.magnet.Cuboid(polarization=(0, 0, 1), dimension=(1, 1, 1), style_label="src")
obs = [(1, 2, 3), (2, 3, 4)]
dfs = []
for _ in range(6):
    df = magpy.getB(src, obs, output="dataframe")
    dfs.append(df)
print(dfs[0])
print(dfs[1])
labels = [tuple(d["sensor"].unique()) for d in dfs]
print("sensor labels per call:", labels)
numeric_same = all(dfs[0].drop(columns="sensor").equals(d.drop(columns="sensor")) for d in dfs)
print("numeric columns identical:", numeric_same)
identical = all(dfs[0].equals(d) for d in dfs[1:])
print("VIOLATION: results differ between identical calls" if not identical else "ok")
sys.exit(0 if identical else 1)
