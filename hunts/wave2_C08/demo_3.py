"""C08 demo 3: the dataframe result of the same getB call changes after a pure READ of
`src.style`, for objects constructed with a falsy non-string label (style_label=0).

get_style_label() (used by getB(output='dataframe') and repr()) reads the raw value from
the not-yet-applied style kwargs (0 -> falsy -> falls back to repr, which prints label=0),
while the materialised style coerces the label to the string '0'.
Exit 1 if the two results differ.
"""
import sys
import magpylib as magpy

src = magpy.magnet.Cuboid(polarization=(0, 0, 1), dimension=(1, 1, 1), style_label=0)
sens = magpy.Sensor(style_label="s")
d1 = magpy.getB(src, sens, output="dataframe")
r1 = repr(src)
_ = src.style  # read access only
d2 = magpy.getB(src, sens, output="dataframe")
r2 = repr(src)
print("source column, 1st call:", d1["source"].tolist())
print("source column, 2nd call:", d2["source"].tolist())
print("repr before/after:", r1, "|", r2)
# also int labels change type (5 -> '5')
src5 = magpy.magnet.Cuboid(polarization=(0, 0, 1), dimension=(1, 1, 1), style_label=5)
e1 = magpy.getB(src5, sens, output="dataframe")["source"].tolist()
_ = src5.style
e2 = magpy.getB(src5, sens, output="dataframe")["source"].tolist()
print("label=5:", [type(x).__name__ for x in e1], e1, "->", [type(x).__name__ for x in e2], e2)
bad = not d1.equals(d2) or e1 != e2
print("VIOLATION" if bad else "ok")
sys.exit(1 if bad else 0)
