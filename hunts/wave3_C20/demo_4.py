"""C20 demo 4: the value of the style leaf `model3d.data[i].kwargs` (a dictionary that is handed
verbatim to the plotting backend) is itself run through the magic underscore parser when it is
given through a constructor / add_trace / update / style dictionary, but not when it is assigned
as attribute.  Keys containing '_' are split into nested dictionaries ("show_edges" ->
{"show": {"edges": ...}}) and `update(kwargs=...)` deep-merges into the old value instead of
replacing it.
Clause violated: "the three ways of giving a style value ... are equivalent and the last
assignment wins".  Practical effect: a matplotlib/pyvista trace with a keyword such as
`solid_capstyle`, `show_edges`, `line_width` cannot be given via add_trace(): show() raises.
"""
import sys
import warnings

import matplotlib

matplotlib.use("Agg")
import numpy as np

import magpylib as magpy
from magpylib.graphics import Trace3d

warnings.filterwarnings("ignore")
bad = []
KW = {"solid_capstyle": "round", "lw": 3}
ARGS = (np.array([0.0, 1.0]), np.array([0.0, 1.0]), np.array([0.0, 1.0]))
mk = lambda **kw: magpy.magnet.Cuboid(polarization=(0, 0, 1), dimension=(1, 1, 1), **kw)


def shows(obj):
    try:
        magpy.show(obj, backend="matplotlib", return_fig=True)
        return "show() ok"
    except Exception as e:  # pylint: disable=broad-except
        return f"show() raises {type(e).__name__}: {str(e)[:60]}"


objs = {}
o = mk()
o.style.model3d.add_trace(backend="matplotlib", constructor="plot", args=ARGS)
o.style.model3d.data[0].kwargs = dict(KW)
objs["attribute assignment    "] = o
o = mk()
o.style.model3d.add_trace(backend="matplotlib", constructor="plot", args=ARGS, kwargs=dict(KW))
objs["add_trace(kwargs=...)   "] = o
o = mk()
o.style.model3d.add_trace(Trace3d(backend="matplotlib", constructor="plot", args=ARGS, kwargs=dict(KW)))
objs["Trace3d(kwargs=...)     "] = o
objs["ctor style_model3d_data "] = mk(
    style_model3d_data=[dict(backend="matplotlib", constructor="plot", args=ARGS, kwargs=dict(KW))]
)
o = mk()
o.style.model3d.add_trace(backend="matplotlib", constructor="plot", args=ARGS)
o.style.model3d.data[0].update(kwargs=dict(KW))
objs["trace.update(kwargs=...)"] = o

for name, o in objs.items():
    stored = o.style.model3d.data[0].kwargs
    ok = stored == KW
    print(name, "->", stored, "|", shows(o), "" if ok else "  <-- value altered")
    if not ok:
        bad.append(name.strip())

# update() merges instead of replacing (attribute assignment replaces)
t = Trace3d(backend="matplotlib", constructor="plot", args=ARGS)
t.kwargs = {"a": 1}
t.kwargs = {"b": 2}
t2 = Trace3d(backend="matplotlib", constructor="plot", args=ARGS)
t2.update(kwargs={"a": 1})
t2.update(kwargs={"b": 2})
print("attribute twice:", t.kwargs, "| update twice:", t2.kwargs)
if t.kwargs != t2.kwargs:
    bad.append("update(kwargs=) merges")

print("\nVIOLATIONS:", bad)
sys.exit(1 if bad else 0)
