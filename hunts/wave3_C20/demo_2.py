"""C20 demo 2: assigning a style OBJECT to `obj.style` is accepted but silently ignored.

`BaseGeo._validate_style` only raises for inputs that are neither dict nor instance of the style
class; an instance of the right class passes validation (the error message even says the input
"must be of type <style class>") and is then dropped: the object keeps its old style.
Clause violated: "attribute assignment ... the last assignment wins" (and a value that is not
honoured is not rejected either).
"""
import sys

import magpylib as magpy
from magpylib.graphics.style import MagnetStyle

bad = []
mk = lambda **kw: magpy.magnet.Cuboid(polarization=(0, 0, 1), dimension=(1, 1, 1), **kw)

a = mk(style_color="red", style_opacity=0.3)
b = mk(style_color="blue")
b.style = a.style  # no error
print("b.style = a.style           ->", b.style.color, b.style.opacity, "(expected red 0.3)")
if (b.style.color, b.style.opacity) != ("red", 0.3):
    bad.append("style instance of another object ignored")

c = mk()
c.style = MagnetStyle(color="green", magnetization_show=False)  # no error
print("c.style = MagnetStyle(...)  ->", c.style.color, c.style.magnetization.show, "(expected green False)")
if (c.style.color, c.style.magnetization.show) != ("green", False):
    bad.append("fresh MagnetStyle instance ignored")

# the equivalent dictionary is honoured
d = mk()
d.style = a.style.as_dict()
print("d.style = a.style.as_dict() ->", d.style.color, d.style.opacity)

# a wrong class is rejected, so instances are a checked, "supported" input
try:
    mk().style = magpy.Sensor().style
    print("SensorStyle on a Cuboid: accepted")
except ValueError as e:
    print("SensorStyle on a Cuboid: rejected with ValueError:", str(e).splitlines()[0])

print("\nVIOLATIONS:", bad)
sys.exit(1 if bad else 0)
