"""C20 demo 5 (incomplete repair of 1507b76 / ee6915f): a Trace3d given inside a style input is
deep-copied by the object constructors, but is stored BY REFERENCE by every other way of giving
the same value: Collection.set_children_styles (one call -> all children share one Trace3d),
`obj.style = d`, `obj.style.update(d)`, `magpy.defaults...model3d.data = [...]`.
Changing the trace of one object then changes the style of the other objects (and of the
caller's trace / of the library defaults).
Clause violated: "styles of different objects ... are independent" (and "the ways of giving a
style value are equivalent": constructor copies, the others alias).
"""
import sys

import magpylib as magpy
from magpylib.graphics import Trace3d

bad = []
mk = lambda **kw: magpy.magnet.Cuboid(polarization=(0, 0, 1), dimension=(1, 1, 1), **kw)
new_trace = lambda: Trace3d(backend="matplotlib", constructor="plot", args=([0, 1], [0, 1], [0, 1]))


def check(name, a, b):
    a.style.model3d.data[0].show = False  # edit the style of object a only
    leaked = b.style.model3d.data[0].show is False
    print(f"{name:38s} a.trace.show=False -> b.trace.show={b.style.model3d.data[0].show}",
          "  <-- leaked" if leaked else "")
    if leaked:
        bad.append(name)


# 1) set_children_styles: one call, two children
a, b = mk(), mk()
magpy.Collection(a, b).set_children_styles(model3d_data=[new_trace()])
check("set_children_styles(model3d_data=[t])", a, b)

# 2) same style dictionary assigned to two objects
d = {"color": "red", "model3d_data": [new_trace()]}
a, b = mk(), mk()
a.style = d
b.style = d
check("a.style = d; b.style = d", a, b)

# 3) update
a, b = mk(), mk()
a.style.update(d)
b.style.update(d)
check("a.style.update(d); b.style.update(d)", a, b)

# 4) reference: constructors copy
d = {"color": "red", "model3d_data": [new_trace()]}
a, b = mk(style=d), mk(style=d)
check("mk(style=d), mk(style=d)  [reference]", a, b)

# 5) library defaults alias the caller's trace
t = new_trace()
magpy.defaults.display.style.base.model3d.data = [t]
t.show = False
leaked = magpy.defaults.display.style.base.model3d.data[0].show is False
print("defaults...model3d.data=[t]; t.show=False -> default trace show =",
      magpy.defaults.display.style.base.model3d.data[0].show, "  <-- leaked" if leaked else "")
if leaked:
    bad.append("defaults alias")
magpy.defaults.reset()

print("\nVIOLATIONS:", bad)
sys.exit(1 if bad else 0)
