"""C20 demo 6: a multi-key style input that is REJECTED (exception) is nevertheless half applied:
the keys that sort before the offending one are already written when the exception is raised.
This holds for obj.style.update, obj.style = {...}, sub-style assignment, set_children_styles
(also: some children updated, others not) and magpy.defaults.update.  For constructors the
rejection is deferred to the first access of `.style` (documented lazy style), it is raised only
once and the valid part of the rejected input stays applied afterwards.
Clause concerned: "Invalid names or values are rejected" - arguable: the call raises, but the
state is not the one before the call.
"""
import sys

import magpylib as magpy

bad = []
mk = lambda **kw: magpy.magnet.Cuboid(polarization=(0, 0, 1), dimension=(1, 1, 1), **kw)
snap = lambda o: o.style.as_dict(flatten=True)


def run(name, obj, action, state=None):
    state = state or (lambda: snap(obj))
    before = state()
    try:
        action()
        print(f"{name:45s} NOT rejected")
        return
    except Exception as e:  # pylint: disable=broad-except
        after = state()
        diff = {k: (before[k], after[k]) for k in before if before[k] != after[k]}
        print(f"{name:45s} raised {type(e).__name__:14s} changed anyway: {diff}")
        if diff:
            bad.append(name)


c = mk()
run("style.update(color='red', opacity=5)", c, lambda: c.style.update(color="red", opacity=5))
c = mk()
run("style.update(color='red', zzz=1)  [bad name]", c, lambda: c.style.update(color="red", zzz=1))
c = mk()
run("style = {'color':'red','path_line_width':-1}", c, lambda: setattr(c, "style", {"color": "red", "path_line_width": -1}))
c = mk()
run("style.path = {'line_width':3,'marker_symbol':'?'}", c,
    lambda: setattr(c.style, "path", {"line_width": 3, "marker_symbol": "?"}))
a, b = mk(), mk()
run("set_children_styles(color='red', opacity=5)", a,
    lambda: magpy.Collection(a, b).set_children_styles(color="red", opacity=5),
    state=lambda: {"a.color": a.style.color, "b.color": b.style.color})
run("defaults.update(autosizefactor=3, opacity=7)", None,
    lambda: magpy.defaults.update(display_autosizefactor=3, display_style_base_opacity=7),
    state=lambda: magpy.defaults.as_dict(flatten=True))
magpy.defaults.reset()

# constructor: rejection deferred, raised once, valid part kept
c = mk(style={"color": "red", "opacity": 5, "path_show": False})
print("constructor with opacity=5: no exception at construction")
try:
    c.style
except AssertionError:
    print("  first  access of .style: AssertionError")
print("  second access of .style: no error, color =", c.style.color, ", path.show =", c.style.path.show)
if c.style.color == "red":
    bad.append("ctor half applied")

print("\nHALF-APPLIED REJECTIONS:", len(bad))
sys.exit(1 if bad else 0)
