"""C20 demo 1: family / base DEFAULTS are ignored for leaves whose style class hard-codes a
non-None value (Pixel.size=1, ArrowSingle.show=True, Model3d.showdefault=True).

Precedence clause violated: "... else the object's own style, else the defaults of the object's
family, else the base defaults".  The objects below have NO own value for these leaves (never set
by the user), yet changing the family/base default has no effect on what show() draws, while the
same value given on the object or as show() kwarg has.
Public API only: effective style is observed through the plotly figure returned by show().
"""
import sys
import warnings

import numpy as np

import magpylib as magpy

warnings.filterwarnings("ignore")
bad = []


def sensor_fig(**kw):
    s = magpy.Sensor(pixel=[(0, 0, 0), (1, 0, 0)], **kw)
    t = magpy.show(s, backend="plotly", return_fig=True).data[0]
    x = np.array(t.x, dtype=float)
    return round(float(np.nanmax(x) - np.nanmin(x)), 4), "red" in set(t.facecolor)


def cuboid_ntraces(show_kw=None, **kw):
    c = magpy.magnet.Cuboid(polarization=(0, 0, 1), dimension=(1, 1, 1), **kw)
    return len(magpy.show(c, backend="plotly", return_fig=True, **(show_kw or {})).data)


magpy.defaults.reset()
ref_extent, ref_red = sensor_fig()
print("reference sensor: x-extent", ref_extent, "| x-arrow (red faces) drawn:", ref_red)

# --- sensor.pixel.size -------------------------------------------------------------------
obj_extent, _ = sensor_fig(style_pixel_size=5)
print("pixel.size=5 on the OBJECT       -> x-extent", obj_extent)
magpy.defaults.display.style.sensor.pixel.size = 5
print("defaults...sensor.pixel.size is now", magpy.defaults.display.style.sensor.pixel.size)
fam_extent, _ = sensor_fig()
print("pixel.size=5 as FAMILY DEFAULT   -> x-extent", fam_extent, "(expected", obj_extent, ")")
if fam_extent != obj_extent:
    bad.append("sensor.pixel.size family default ignored")
magpy.defaults.reset()

# --- sensor.arrows.x.show ----------------------------------------------------------------
_, obj_red = sensor_fig(style_arrows_x_show=False)
print("arrows.x.show=False on the OBJECT     -> x-arrow drawn:", obj_red)
magpy.defaults.display.style.sensor.arrows.x.show = False
_, fam_red = sensor_fig()
print("arrows.x.show=False as FAMILY DEFAULT -> x-arrow drawn:", fam_red, "(expected False)")
if fam_red:
    bad.append("sensor.arrows.x.show family default ignored")
magpy.defaults.reset()

# --- base.model3d.showdefault ------------------------------------------------------------
print("model3d.showdefault=False on the OBJECT  -> traces:", cuboid_ntraces(style_model3d_showdefault=False))
print("model3d.showdefault=False as show() kwarg -> traces:", cuboid_ntraces({"style_model3d_showdefault": False}))
magpy.defaults.display.style.base.model3d.showdefault = False
n = cuboid_ntraces()
print("model3d.showdefault=False as BASE DEFAULT -> traces:", n, "(expected 0)")
if n != 0:
    bad.append("base.model3d.showdefault default ignored")
magpy.defaults.reset()

print("\nVIOLATIONS:", bad)
sys.exit(1 if bad else 0)
