"""C20 demo 3 (incomplete repair of 19f04ab): the documented string shortcut for
`description` / `legend` combined with another property of the same sub-style IN ONE CALL
silently drops one of the two values (which one depends on keyword order).

magic_to_dict only merges entries of the same key when both are dictionaries; a string entry
('description': 'txt') and a dict entry ('description_show' -> {'show': ...}) replace each other.
Clause violated: notations are equivalent / every given leaf value is applied (last assignment
wins only concerns the SAME leaf - here two different leaves, text and show, are given).
"""
import sys

import magpylib as magpy

bad = []
mk = lambda **kw: magpy.magnet.Cuboid(polarization=(0, 0, 1), dimension=(1, 1, 1), **kw)

ref = mk()
ref.style.description = "txt"
ref.style.description.show = False
print("sequential attribute assignment:", ref.style.description)

cases = {
    "ctor  style_description='txt', style_description_show=False": lambda: mk(
        style_description="txt", style_description_show=False
    ).style.description,
    "ctor  style_description_show=False, style_description='txt'": lambda: mk(
        style_description_show=False, style_description="txt"
    ).style.description,
    "update(description='txt', description_show=False)": lambda: mk().style.update(
        description="txt", description_show=False
    ).description,
    "style = {'legend': 'txt', 'legend_show': False}": lambda: mk(
        style={"legend": "txt", "legend_show": False}
    ).style.legend,
}
for name, f in cases.items():
    r = f()
    ok = (r.text, r.show) == ("txt", False)
    print(f"{name:62s} -> text={r.text!r} show={r.show!r}", "" if ok else "  <-- one value dropped")
    if not ok:
        bad.append(name)

print("\nVIOLATIONS:", len(bad))
sys.exit(1 if bad else 0)
