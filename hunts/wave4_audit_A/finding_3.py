"""Collection.remove(Y, x) with x a child of Y: now raises after Y has already been removed
(commit 2b80a0e); the pinned tree returned normally (but left x without parent inside Y)."""
import os, sys
# this script lives inside a magpylib checkout: drop the script directory that Python puts
# in front of PYTHONPATH, so that the tree named by PYTHONPATH is the one imported
if os.path.abspath(sys.path[0] or ".") == os.path.dirname(os.path.abspath(__file__)):
    del sys.path[0]
import magpylib as magpy
print('magpylib from', os.path.dirname(magpy.__file__))

x = magpy.Sensor(style_label="x")
Y = magpy.Collection(x, style_label="Y")
c = magpy.Collection(Y, style_label="c")
raised = None
try:
    c.remove(Y, x)          # both are in the tree of c when the call is made
except Exception as e:      # pylint: disable=broad-except
    raised = e
print("c.remove(Y, x) raised:", repr(raised))
print("c.children:", [o.style.label for o in c.children], "| Y.children:", [o.style.label for o in Y.children],
      "| x.parent:", None if x.parent is None else x.parent.style.label,
      "| Y.parent:", None if Y.parent is None else Y.parent.style.label)
consistent = all(ch.parent is Y for ch in Y.children)
print("tree consistent (every child of Y has parent Y):", consistent)
changed_although_raised = raised is not None and Y.parent is None
print("call raised although it already changed the tree:", changed_although_raised)
sys.exit(1 if changed_although_raised else 0)
