"""Vector input of length 0 is rejected by rotate()/rotate_from_*() although move() still
accepts it (commit d0f5811 put the "not empty" check into the shared orientation check)."""
import os, sys
# this script lives inside a magpylib checkout: drop the script directory that Python puts
# in front of PYTHONPATH, so that the tree named by PYTHONPATH is the one imported
if os.path.abspath(sys.path[0] or ".") == os.path.dirname(os.path.abspath(__file__)):
    del sys.path[0]
import numpy as np
import magpylib as magpy
from scipy.spatial.transform import Rotation as R
print('magpylib from', os.path.dirname(magpy.__file__))

calls = {
    "move(np.zeros((0,3)))": lambda o: o.move(np.zeros((0, 3))),
    "rotate(R.from_quat(np.zeros((0,4))))": lambda o: o.rotate(R.from_quat(np.zeros((0, 4)))),
    "rotate_from_angax([], 'z')": lambda o: o.rotate_from_angax([], "z"),
    "rotate_from_angax(np.linspace(0,90,0), 'z', anchor=0)": lambda o: o.rotate_from_angax(np.linspace(0, 90, 0), "z", anchor=0),
    "rotate_from_rotvec(np.zeros((0,3)))": lambda o: o.rotate_from_rotvec(np.zeros((0, 3))),
    "rotate_from_quat(np.zeros((0,4)))": lambda o: o.rotate_from_quat(np.zeros((0, 4))),
    "rotate_from_euler(np.zeros((0,2)), 'xy')": lambda o: o.rotate_from_euler(np.zeros((0, 2)), "xy"),
    "Collection.rotate_from_angax([], 'z')": lambda o: magpy.Collection(o).rotate_from_angax([], "z"),
}
bad = 0
for name, f in calls.items():
    obj = magpy.Sensor(position=[(1, 2, 3), (2, 3, 4)])
    try:
        f(obj)
        res = f"ok, path length {len(obj._position)} (n=0 operations applied: nothing changes)"
    except Exception as e:  # pylint: disable=broad-except
        res = f"{type(e).__name__}: {e}"
        bad += 1
    print(f"{name:55s} -> {res}")
sys.exit(1 if bad else 0)
