"""copy(children=[...], position=...) on a Collection: keyword order no longer decides
whether the new children follow the position/orientation assignment (commit 0c17cf5)."""
import os, sys
# this script lives inside a magpylib checkout: drop the script directory that Python puts
# in front of PYTHONPATH, so that the tree named by PYTHONPATH is the one imported
if os.path.abspath(sys.path[0] or ".") == os.path.dirname(os.path.abspath(__file__)):
    del sys.path[0]
import numpy as np
import magpylib as magpy
print('magpylib from', os.path.dirname(magpy.__file__))

def scene():
    old = magpy.Sensor(position=(1, 0, 0))
    coll = magpy.Collection(old, position=(0, 0, 1))
    new = magpy.misc.Dipole(moment=(1, 2, 3), position=(5, 5, 5))
    return coll, new

# base tree: kwargs are applied in the order given -> children first, then the
# Collection position setter carries the (new) children along.
coll, new = scene()
cp = coll.copy(children=[new], position=(1, 2, 3))
print("copy(children=[new], position=(1,2,3)):  copy.position", cp.position, " new.position", new.position)
first = new.position.copy()

coll, new = scene()
cp = coll.copy(position=(1, 2, 3), children=[new])
print("copy(position=(1,2,3), children=[new]):  copy.position", cp.position, " new.position", new.position)
second = new.position.copy()

# pinned upstream: first = [6,7,7] (moved with the collection by (1,2,2)), second = [5,5,5]
bad = np.allclose(first, second)
print("keyword order respected (upstream behaviour):", not bad)
sys.exit(1 if bad else 0)
