"""description / legend given as a string (shortcut for .text) together with another entry of
the same sub-property in ONE call: one of the two is silently lost (both trees)."""
import sys
import _finding_common

magpy = _finding_common.setup()
Cub = lambda **k: magpy.magnet.Cuboid(polarization=(0, 0, 1), dimension=(1, 1, 1), **k)
bad = []

def check(name, style, want):
    got = {k: getattr(getattr(style, want[0]), k) for k in ("text", "show")}
    ok = got == {"text": want[1], "show": want[2]}
    print(f"{name:75s} -> {got}" + ("" if ok else "   <-- lost"))
    if not ok:
        bad.append(name)

# reference: the same two values given one after the other are both kept (current tree)
c = Cub(); c.style.update(description="hello"); c.style.update(description_show=False)
check("update(description='hello'); update(description_show=False)", c.style, ("description", "hello", False))

check("Cuboid(style_description='hello', style_description_show=False)",
      Cub(style_description="hello", style_description_show=False).style, ("description", "hello", False))
check("Cuboid(style_description_show=False, style_description='hello')",
      Cub(style_description_show=False, style_description="hello").style, ("description", "hello", False))
check("Cuboid(style={'legend': 'abc'}, style_legend_show=False)",
      Cub(style={"legend": "abc"}, style_legend_show=False).style, ("legend", "abc", False))
c = Cub(); c.style.update(legend="abc", legend_show=False)
check("style.update(legend='abc', legend_show=False)", c.style, ("legend", "abc", False))
col = magpy.Collection(Cub())
col.set_children_styles(description="D", description_show=False)
check("set_children_styles(description='D', description_show=False)", col[0].style, ("description", "D", False))
fig = magpy.show(Cub(), backend="plotly", return_fig=True, style_legend="LEG")
print("show(style_legend='LEG') legend entries:", sorted({t.name for t in fig.data if t.name}))
fig = magpy.show(Cub(), backend="plotly", return_fig=True, style_legend="LEG", style_legend_show=True)
names = sorted({t.name for t in fig.data if t.name})
print("show(style_legend='LEG', style_legend_show=True) legend entries:", names)
if not any("LEG" in n for n in names):
    bad.append("show(style_legend=..., style_legend_show=...)")

print("PROBLEM: " + "; ".join(bad) if bad else "ok")
sys.exit(1 if bad else 0)
