"""a style object is accepted by the style setter (commit 1bec7ef) but not at construction or in
copy(): the object is created without complaint, the first style access raises an unrelated
TypeError and afterwards the given style is silently dropped."""
import sys
import _finding_common

magpy = _finding_common.setup()
Cub = lambda **k: magpy.magnet.Cuboid(polarization=(0, 0, 1), dimension=(1, 1, 1), **k)
bad = []
src = Cub(style_color="red", style_label="SRC")

b = Cub()
b.style = src.style
print("setter:       b.style = src.style          -> color", b.style.color)

c = Cub(style=src.style)
print("constructor:  Cuboid(style=src.style) created without error:", type(c).__name__)
try:
    print("              color", c.style.color)
except Exception as e:  # noqa
    print("              first style access raises", type(e).__name__, "-", e)
    bad.append("constructor")
print("              second style access: color", c.style.color, "(the given style is gone)")
if c.style.color != "red" and "constructor" not in bad:
    bad.append("constructor")

try:
    d = Cub().copy(style=src.style)
    print("copy:         copy(style=src.style) -> color", d.style.color)
    if d.style.color != "red":
        bad.append("copy")
except Exception as e:  # noqa
    print("copy:         copy(style=src.style) raises", type(e).__name__, "-", e)
    bad.append("copy")

print("PROBLEM: style object not accepted by: " + ", ".join(bad) if bad else "ok")
sys.exit(1 if bad else 0)
