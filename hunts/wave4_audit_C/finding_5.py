"""a style object of a subclass passes the type check of the style setter, is applied in part
and then raises an AttributeError (base tree: silently ignored, nothing changed)"""
import sys
import _finding_common

magpy = _finding_common.setup()
bad = []
cub = magpy.magnet.Cuboid(polarization=(0, 0, 1), dimension=(1, 1, 1), style_color="red", style_opacity=0.3)
col = magpy.Collection(style_color="blue")
before = col.style.as_dict()
try:
    col.style = cub.style  # MagnetStyle is a subclass of the BaseStyle of a Collection
    print("accepted; collection color:", col.style.color)
except Exception as e:  # noqa
    print("raises", type(e).__name__, "-", str(e).splitlines()[0])
    if col.style.as_dict() != before:
        print("... but the style was changed anyway: color", before["color"], "->", col.style.color,
              ", opacity", before["opacity"], "->", col.style.opacity)
        bad.append("rejected style object applied in part")
print("PROBLEM: " + "; ".join(bad) if bad else "ok")
sys.exit(1 if bad else 0)
