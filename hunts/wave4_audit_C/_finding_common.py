"""helper for the finding_<n>.py scripts: makes sure that magpylib is imported from the tree
given by PYTHONPATH and not from the directory of the script (/tmp/hunt4_C)"""
import os
import sys


def setup():
    here = os.path.dirname(os.path.abspath(__file__))
    # sys.path[0] is the script directory, which contains the current tree; PYTHONPATH entries
    # come after it and must decide which tree is used
    if sys.path and os.path.abspath(sys.path[0] or ".") == here:
        sys.path.pop(0)
    if not os.environ.get("PYTHONPATH"):
        sys.path.insert(0, here)  # no PYTHONPATH given: use the current tree
    import magpylib

    print("tree:", os.path.dirname(os.path.dirname(magpylib.__file__)))
    return magpylib
