"""a rejected dictionary assignment to a style property is applied in part (it left the style
unchanged on the base tree)"""
import sys
import _finding_common

magpy = _finding_common.setup()
bad = []

c = magpy.magnet.Cuboid(polarization=(0, 0, 1), dimension=(1, 1, 1), style_path_line_width=1)
before = c.style.as_dict()
try:
    c.style.path = {"line": {"width": 5}, "marker": {"symbol": "not-a-symbol"}}
    print("no error?!")
except Exception as e:  # noqa
    print("rejected with", type(e).__name__)
print("object: path.line.width before 1, after the rejected assignment:", c.style.path.line.width)
if c.style.as_dict() != before:
    bad.append("object style changed by a rejected assignment")

# the same on the library defaults
ref = magpy.defaults.display.style.magnet.magnetization.as_dict()
try:
    magpy.defaults.display.style.magnet.magnetization = {"mode": "arrow", "show": "not-a-bool"}
except Exception as e:  # noqa
    print("rejected with", type(e).__name__)
print("defaults: magnet.magnetization.mode before 'auto', after the rejected assignment:",
      repr(magpy.defaults.display.style.magnet.magnetization.mode))
if magpy.defaults.display.style.magnet.magnetization.as_dict() != ref:
    bad.append("library defaults changed by a rejected assignment")
magpy.defaults.reset()

# and through update() for a single sub-property
s = magpy.Sensor(style_pixel_size=2)
try:
    s.style.update(pixel={"size": 7, "symbol": "not-a-symbol"})
except Exception as e:  # noqa
    print("rejected with", type(e).__name__)
print("sensor: pixel.size before 2, after the rejected update:", s.style.pixel.size)
if s.style.pixel.size != 2:
    bad.append("update() with a rejected pixel dictionary changed pixel.size")

print("PROBLEM: " + "; ".join(bad) if bad else "ok")
sys.exit(1 if bad else 0)
