"""Collection.describe() (and the html repr) still reads child.style.label through
getattr(obj, "style", None): it creates the lazily created style of every child and, when a child
was given an invalid style argument, swallows the error and consumes the pending arguments
(commit ffe9f8a repaired the same thing for repr() and the field functions only)."""
import contextlib
import io
import sys
import _finding_common

magpy = _finding_common.setup()
bad = []
good = magpy.magnet.Cuboid(polarization=(0, 0, 1), dimension=(1, 1, 1), style_label="x")
broken = magpy.magnet.Cuboid(polarization=(0, 0, 1), dimension=(1, 1, 1), style_label="y", style_bogus=1)
col = magpy.Collection(good, broken)
repr(col), repr(good), repr(broken)
print("after repr():           style created:", [getattr(o, "_style", None) is not None for o in (good, broken)],
      " pending style arguments:", [bool(o._style_kwargs) for o in (good, broken)])
with contextlib.redirect_stdout(io.StringIO()) as buf:
    col.describe(format="type+label")
print(buf.getvalue().rstrip())
print("after col.describe():   style created:", [getattr(o, "_style", None) is not None for o in (good, broken)],
      " pending style arguments:", [bool(o._style_kwargs) for o in (good, broken)])
if getattr(good, "_style", None) is not None:
    bad.append("describe() of the collection created the style of its children")
try:
    broken.style
    print("broken.style: no error - the invalid argument style_bogus=1 was dropped silently")
    bad.append("invalid style argument swallowed")
except AttributeError as e:
    print("broken.style raises:", str(e).splitlines()[1])
print("PROBLEM: " + "; ".join(bad) if bad else "ok")
sys.exit(1 if bad else 0)
