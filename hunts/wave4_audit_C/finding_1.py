"""update() / dictionary assignment on one object writes through a sub-style instance that is
shared with another object (or with the library defaults)  -> styles leak between objects"""
import sys
import _finding_common

magpy = _finding_common.setup()
Cub = lambda **k: magpy.magnet.Cuboid(polarization=(0, 0, 1), dimension=(1, 1, 1), **k)
bad = []

a = Cub(style_path_line_width=2)
b = Cub()
b.style.path = a.style.path  # "path: dict or Path object"
b.style.update(color="red")  # does not mention the path at all
b.style.update(path_show=False)
print("a.style.path.show after b.style.update(path_show=False):", a.style.path.show)
if a.style.path.show is not None:
    bad.append("update() of b changed a")

a2, b2 = Cub(), Cub()
b2.style.path = a2.style.path
b2.style.path = {"numbering": True}
print("a2.style.path.numbering after b2.style.path = {'numbering': True}:", a2.style.path.numbering)
if a2.style.path.numbering is not None:
    bad.append("dict assignment on b2 changed a2")

c = Cub()
c.style.magnetization = magpy.defaults.display.style.magnet.magnetization
c.style.update(magnetization_show=False)
d = Cub()
print("library default magnet.magnetization.show after c.style.update(magnetization_show=False):",
      magpy.defaults.display.style.magnet.magnetization.show)
if magpy.defaults.display.style.magnet.magnetization.show is not True:
    bad.append("update() of an object style changed the library defaults")
magpy.defaults.reset()

print("PROBLEM: " + "; ".join(bad) if bad else "ok")
sys.exit(1 if bad else 0)
