"""Collection.copy(children=[x], position=p): on the base tree the keyword inputs were applied in
the order given (children, then position -> the new children move with the collection, as they
do for `col.children = [x]; col.position = p`); now tree inputs always come last."""
import sys
import _finding_common

magpy = _finding_common.setup()
x = magpy.magnet.Cuboid(polarization=(0, 0, 1), dimension=(1, 1, 1))
col = magpy.Collection(magpy.Sensor())
c2 = col.copy(children=[x], position=(1, 0, 0))
print("col.copy(children=[x], position=(1,0,0)): x.position =", x.position)
ref_x = magpy.magnet.Cuboid(polarization=(0, 0, 1), dimension=(1, 1, 1))
ref = col.copy(); ref.children = [ref_x]; ref.position = (1, 0, 0)
print("copy(); .children=[x]; .position=(1,0,0):  x.position =", ref_x.position)
differs = list(x.position) != list(ref_x.position)
print("PROBLEM: keyword order is not honoured any more" if differs else "ok")
sys.exit(1 if differs else 0)
