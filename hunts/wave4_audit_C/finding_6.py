"""magnetization.size (deprecated alias of magnetization.arrow.size, still documented in the
show() and set_children_styles() docstrings) is silently ignored by update(...,
_match_properties=False) and overrides an existing value with _replace_None_only=True"""
import sys
import _finding_common

magpy = _finding_common.setup()
bad = []
c = magpy.magnet.Cuboid(polarization=(0, 0, 1), dimension=(1, 1, 1))
c.style.update(magnetization_size=3, _match_properties=False)
print("update(magnetization_size=3, _match_properties=False) -> arrow.size =", c.style.magnetization.arrow.size)
if c.style.magnetization.arrow.size != 3:
    bad.append("alias ignored with _match_properties=False")
m = magpy.defaults.display.style.magnet
m.update({"magnetization": {"size": 4}}, _match_properties=False)
print("defaults ...magnet.update({'magnetization': {'size': 4}}, _match_properties=False) -> arrow.size =", m.magnetization.arrow.size)
if m.magnetization.arrow.size != 4:
    bad.append("alias ignored on the defaults")
magpy.defaults.reset()
c2 = magpy.magnet.Cuboid(polarization=(0, 0, 1), dimension=(1, 1, 1), style_magnetization_arrow_size=2)
c2.style.update(magnetization_size=5, _replace_None_only=True)
print("arrow.size=2; update(magnetization_size=5, _replace_None_only=True) -> arrow.size =", c2.style.magnetization.arrow.size)
if c2.style.magnetization.arrow.size != 2:
    bad.append("_replace_None_only not respected for the alias")
print("PROBLEM: " + "; ".join(bad) if bad else "ok")
sys.exit(1 if bad else 0)
