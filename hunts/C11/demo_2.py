"""C11 violation 2: a *rejected* augmented assignment corrupts the tree.

The setter's rollback re-parents every object it found in the (already in-place extended)
live list to `self`, including objects that never were children, and puts the mutated list back.
  (a) col.collections += [col.parent]  -> raises, afterwards parent.parent is col (parent-pointer
      cycle; col does not list its "child"; the grand-parent still lists `parent`)
  (b) col.children += [col]            -> raises, afterwards col is its own child and own parent,
      col.children_all recurses forever
"""
import sys
import magpylib as magpy
from magpylib._src.exceptions import MagpylibBadUserInput

violation = False

# (a) ------------------------------------------------------------------
col = magpy.Collection(style_label="col")
par = magpy.Collection(col, style_label="par")
top = magpy.Collection(par, style_label="top")
try:
    col.collections += [par]
    print("(a) no exception raised")
except MagpylibBadUserInput as e:
    print("(a) raised:", str(e).split("\n")[0][:90])
print("    par.parent =", par.parent.style.label, "| col.parent =", col.parent.style.label,
      "| top.children =", [k.style.label for k in top.children],
      "| col.children =", [k.style.label for k in col.children])
if par.parent is not top:
    print("    VIOLATION: par is listed by top but par.parent is", par.parent.style.label,
          "(col.parent is par -> cycle through parent pointers)")
    violation = True

# (b) ------------------------------------------------------------------
a = magpy.Sensor(style_label="a")
col = magpy.Collection(a, style_label="col")
root = magpy.Collection(col, style_label="root")
try:
    col.children += [col]
    print("(b) no exception raised")
except MagpylibBadUserInput as e:
    print("(b) raised:", str(e).split("\n")[0][:90])
print("    col.children =", [k.style.label for k in col.children], "| col.parent =", col.parent.style.label)
if any(k is col for k in col.children) or col.parent is col:
    violation = True
    print("    VIOLATION: collection contains itself / is its own parent after a rejected call")
    try:
        col.children_all
    except RecursionError:
        print("    col.children_all -> RecursionError")

# (c) rejected duplicate: child listed twice afterwards ----------------
b = magpy.Sensor(style_label="b")
col = magpy.Collection(style_label="col")
try:
    col.children += [b, b]
    print("(c) no exception raised")
except MagpylibBadUserInput as e:
    print("(c) raised:", str(e).split("\n")[0][:90])
n = sum(1 for k in col.children if k is b)
print(f"    b listed {n}x in col.children, b.parent = {b.parent}")
if n != 0 or b.parent is not None:
    violation = True
    print("    VIOLATION: rejected call changed the tree; b listed", n, "times")

print("VIOLATION PRESENT" if violation else "no violation")
sys.exit(1 if violation else 0)
