"""C11 violation 3 (root cause of 1 and 2, lower confidence as a 'bug'): the public getters
children / sources / sensors / collections return the collection's *internal* lists, so
ordinary list operations on the returned value edit the tree without any bookkeeping.
"""
import sys
import magpylib as magpy

violation = False
mk = lambda l: magpy.magnet.Cuboid(polarization=(0, 0, 1), dimension=(1, 1, 1), style_label=l)

# (a) append to the returned list: child without parent link, stale typed view
x = mk("x")
col = magpy.Collection(style_label="col")
col.children.append(x)
print("(a) col.children.append(x): col.children =", [k.style.label for k in col.children],
      "| x.parent =", x.parent, "| col.sources =", col.sources, "| col.sources_all =",
      [k.style.label for k in col.sources_all])
if any(k is x for k in col.children) and (x.parent is not col or not any(k is x for k in col.sources)):
    violation = True
    print("    VIOLATION: col lists x, x.parent is None, sources != typed partition of children")

# (b) reorder the returned list: typed views no longer the *ordered* partition
a, b = mk("a"), mk("b")
col = magpy.Collection(a, b, style_label="col")
col.children.reverse()
print("(b) col.children.reverse(): children =", [k.style.label for k in col.children],
      "| sources =", [k.style.label for k in col.sources],
      "| sources_all =", [k.style.label for k in col.sources_all])
if [k.style.label for k in col.children] != [k.style.label for k in col.sources]:
    violation = True
    print("    VIOLATION: sources order differs from children order (and from sources_all)")

# (c) clear the typed view: sources empty while children / sources_all still hold them
a = mk("a")
col = magpy.Collection(a, style_label="col")
col.sources.clear()
print("(c) col.sources.clear(): sources =", col.sources, "| children =", [k.style.label for k in col.children],
      "| sources_all =", [k.style.label for k in col.sources_all])
if col.sources == [] and len(col.children) == 1:
    violation = True
    print("    VIOLATION: sources is not the typed partition of children")

# (d) the *_all getters by contrast return fresh lists (mutation is harmless)
col = magpy.Collection(mk("a"), style_label="col")
col.children_all.clear()
print("(d) col.children_all.clear() leaves children =", [k.style.label for k in col.children], "(fresh list, fine)")

print("VIOLATION PRESENT" if violation else "no violation")
sys.exit(1 if violation else 0)
