"""C11 violation 1: augmented assignment (+=) on children/sources/sensors/collections
steals an object from another collection without removing it there.

`col.children += [x]` is `col.children = col.children.__iadd__([x])`.  The getter hands out
the live internal list, so the list is extended in place *before* the setter runs; the setter
then treats x as one of the "old" children, clears x._parent behind the back of x's real
parent P, and re-adds x.  Result: x is listed by P and by col (two parents list one object).
"""
import sys
import magpylib as magpy


def listers(obj, colls):
    return [c.style.label for c in colls for k in c.children if k is obj]


def scenario(attr):
    x = magpy.magnet.Cuboid(polarization=(0, 0, 1), dimension=(1, 1, 1), style_label="x")
    s = magpy.Sensor(style_label="s")
    sub = magpy.Collection(style_label="sub")
    P = magpy.Collection(x, s, sub, style_label="P")
    col = magpy.Collection(style_label="col")
    new = {"children": x, "sources": x, "sensors": s, "collections": sub}[attr]

    # the augmented assignment under test (no exception is raised)
    setattr(col, attr, getattr(col, attr).__iadd__([new]))  # == `col.<attr> += [new]`

    who = listers(new, [P, col])
    bad = len(who) != 1 or new.parent.style.label != who[0]
    print(f"col.{attr} += [{new.style.label}]: parent={new.parent.style.label}, "
          f"listed as child by {who}, still in P.children_all: {any(k is new for k in P.children_all)}"
          f"  -> {'VIOLATION' if bad else 'ok'}")
    return bad


def control():
    # the non-augmented spelling of the same request behaves correctly
    x = magpy.magnet.Cuboid(polarization=(0, 0, 1), dimension=(1, 1, 1), style_label="x")
    P = magpy.Collection(x, style_label="P")
    col = magpy.Collection(style_label="col")
    col.children = col.children + [x]
    who = listers(x, [P, col])
    print(f"control `col.children = col.children + [x]`: listed by {who}")
    return who != ["col"]


# real operator syntax once, to show that nothing exotic is needed
x = magpy.Sensor(style_label="x")
P = magpy.Collection(x, style_label="P")
col = magpy.Collection(style_label="col")
col.children += [x]
syntax_bad = listers(x, [P, col]) != ["col"]
print("plain syntax `col.children += [x]`: x listed by", listers(x, [P, col]), "x.parent =", x.parent.style.label)

bad = [scenario(a) for a in ("children", "sources", "sensors", "collections")]
ctrl_bad = control()
violation = syntax_bad or any(bad)
print("VIOLATION PRESENT" if violation else "no violation")
sys.exit(1 if violation else 0)
