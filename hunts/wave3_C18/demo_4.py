"""C18 candidate 4 (weak): mutable state of a CustomSource field function is shared, or not,
depending on how the callable is written.

functools.partial objects are deep-copied (independent), plain functions are not (deepcopy
treats functions as atomic), so state that lives in function attributes / closure cells /
default arguments stays shared between original and copy: a change made through
`orig.field_func` changes the field of the copy.
"""
import sys
from functools import partial
import numpy as np
import magpylib as magpy


def make_func():
    def func(field, observers):
        return np.ones_like(observers, dtype=float) * func.scale[0]

    func.scale = [1.0]
    return func


def pfunc(field, observers, scale=None):
    return np.ones_like(observers, dtype=float) * scale[0]


obs = (1, 2, 3)
res = {}
for name, ff in (("function", make_func()), ("partial", partial(pfunc, scale=[1.0]))):
    orig = magpy.misc.CustomSource(field_func=ff)
    cp = orig.copy()
    b0 = cp.getB(obs)
    # change the original only, through its public attribute
    state = orig.field_func.scale if name == "function" else orig.field_func.keywords["scale"]
    state[0] = 5.0
    b1 = cp.getB(obs)
    res[name] = not np.allclose(b0, b1)
    print(f"{name:9s}: copy field before {b0}, after changing the original {b1}")

bad = res["function"]
print("VIOLATION (copy follows the original)" if bad else "ok")
sys.exit(1 if bad else 0)
