"""C18 candidate 2: a REJECTED copy(style=<style object>, style_...=...) changes the original.

BaseGeo._process_style_kwargs only works on a copy of `style` when it is a `dict`.  Any other
value is updated IN PLACE with the style_... magic keywords before it is found to be unusable.
Passing the style object of the original (the `style` setter accepts style objects, so this is
a natural thing to try) makes copy() raise a TypeError - after it has written the overrides,
that were meant for the copy, into the style of the original (or of whatever object the style
belongs to).
"""
import sys
import magpylib as magpy

orig = magpy.magnet.Cuboid(
    polarization=(0, 0, 1), dimension=(1, 1, 1), style_color="red", style_label="orig"
)
before = (orig.style.color, orig.style.label, orig.style.opacity)
raised = None
try:
    orig.copy(style=orig.style, style_color="blue", style_label="the copy", style_opacity=0.1)
except Exception as err:
    raised = f"{type(err).__name__}: {err}"
after = (orig.style.color, orig.style.label, orig.style.opacity)

print("copy() raised            :", raised)
print("original style before    :", before)
print("original style after     :", after)

# a third object is changed in the same way
other = magpy.Sensor(style_label="other")
try:
    orig.copy(style=other.style, style_label="the copy")
except Exception:
    pass
print("uninvolved object's label:", other.style.label)

bad = after != before or other.style.label != "other"
print("VIOLATION" if bad else "ok")
sys.exit(1 if bad else 0)
