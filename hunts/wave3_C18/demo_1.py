"""C18 candidate 1: a REJECTED copy(children=[...], <invalid kwarg>) changes the original tree.

copy() applies the keyword arguments one after the other with setattr() on the new object.
`children` (also `sources`, `sensors`, `collections`) is applied through the Collection setter,
which adds the given objects with override_parent=True, i.e. takes them away from the
collection they are in.  When a later keyword argument is rejected, copy() raises, no copy is
returned - but the objects stay removed from their collection and now have a discarded,
unreachable, unfinished copy as parent.  (Same class of defect as the already repaired
"copy(parent=coll, ...) assigns the parent last".)
"""
import sys
import magpylib as magpy

x = magpy.Sensor(style_label="x")
y = magpy.Sensor(style_label="y")
coll = magpy.Collection(x, y, style_label="coll")

before = [c.style.label for c in coll.children]
raised = None
try:
    coll.copy(children=[x], position="not a position")
except Exception as err:  # the invalid position is rejected, as it should
    raised = type(err).__name__

after = [c.style.label for c in coll.children]
print("copy() raised           :", raised)
print("original children before:", before)
print("original children after :", after)
print("x.parent is coll        :", x.parent is coll, "->", x.parent)

# same with a third, uninvolved collection
other = magpy.Collection(magpy.Sensor(style_label="z"), style_label="other")
z = other.children[0]
try:
    coll.copy(sensors=[z], orientation=5)
except Exception as err:
    pass
print("uninvolved collection `other` children after rejected copy:", other.children)

bad = raised is not None and (after != before or x.parent is not coll or other.children != [z])
print("VIOLATION" if bad else "ok")
sys.exit(1 if bad else 0)
