"""C18 candidate 3: a SUCCESSFUL copy(children=...) / copy(sensors=...) changes the original tree.

`coll.copy(children=coll.children[:1])` ("give me a copy of this collection that only holds the
first child") returns a copy - and removes that child from the original collection, because the
keyword is applied with the children setter, which uses add(..., override_parent=True).
"""
import sys
import magpylib as magpy

x = magpy.Sensor(style_label="x")
y = magpy.magnet.Sphere(polarization=(0, 0, 1), diameter=1, style_label="y")
coll = magpy.Collection(x, y, style_label="coll")

before = [c.style.label for c in coll.children]
cp = coll.copy(children=coll.children[:1])
after = [c.style.label for c in coll.children]

print("original children before copy():", before)
print("original children after  copy():", after)
print("copy children                  :", [c.style.label for c in cp.children])
print("x is now a child of the copy   :", x.parent is cp)

bad = after != before
print("VIOLATION" if bad else "ok")
sys.exit(1 if bad else 0)
