r"""C18 candidate 6 (very weak): label iteration with a label that ends in digits + newline.

add_iteration_suffix() uses the regular expression r"\d+$"; `$` also matches before a trailing
newline, the digits are then cut off by their length from the end of the string - which removes
the newline and the wrong characters: 'a1\n' -> 'a12' instead of 'a2\n' (or 'a1\n_01').
"""
import sys
import magpylib as magpy

s = magpy.Sensor(style_label="a1\n")
lab = s.copy().style.label
print("label of original:", repr(s.style.label))
print("label of copy    :", repr(lab))
print("for comparison   :", repr(magpy.Sensor(style_label="a1").copy().style.label))
bad = lab == "a12"
print("VIOLATION" if bad else "ok")
sys.exit(1 if bad else 0)
