"""C18 candidate 5 (weak): copy() silently accepts keyword arguments that are no attributes.

The constructors reject unknown keywords (TypeError); copy() uses a bare setattr(), so a typo
gives an un-overridden copy without any error, a Collection accepts `polarization=...`, and
names of methods are overwritten on the copy.
"""
import sys
import magpylib as magpy

cube = magpy.magnet.Cuboid(polarization=(0, 0, 1), dimension=(1, 1, 1))
problems = []

try:
    c = cube.copy(polarisation=(1, 0, 0))  # typo
    print("copy(polarisation=...) accepted, copy.polarization =", c.polarization)
    problems.append("typo accepted")
except (TypeError, AttributeError) as err:
    print("rejected:", err)

try:
    c = cube.copy(getB=None)
    print("copy(getB=None) accepted, copy.getB =", c.getB)
    problems.append("method overwritten")
except (TypeError, AttributeError) as err:
    print("rejected:", err)

try:
    magpy.magnet.Cuboid(polarisation=(1, 0, 0))
except TypeError as err:
    print("constructor, for comparison:", err)

print("VIOLATION" if problems else "ok", problems)
sys.exit(1 if problems else 0)
