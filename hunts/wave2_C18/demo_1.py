"""C18 violation 1: style sub-objects handed to copy() through the `style_<prop>=...`
keyword (magic underscore notation) are stored BY REFERENCE in the copy.
When they come from the original (or any other object) the copy and that object
share mutable style state afterwards: a later style change of one is visible in the other.
(The sibling form copy(style={...}) is deep-copied since the earlier repair; the
underscore form is not.)"""
import sys
import numpy as np
import magpylib as magpy

bad = []

o = magpy.magnet.Cuboid(polarization=(0, 0, 1), dimension=(1, 1, 1), style_label="orig")
o.style.path.line.width = 3
o.style.model3d.add_trace(
    backend="matplotlib", constructor="plot", args=(np.arange(2.0),) * 3, show=True
)

# 1a) sub-style object (documented input type: "path: dict or `Path` object")
c = o.copy(style_path=o.style.path)
print("1a copy.style.path is orig.style.path :", c.style.path is o.style.path)
c.style.path.line.width = 11  # change the COPY only
print("   orig.style.path.line.width after changing the copy:", o.style.path.line.width)
if o.style.path.line.width != 3:
    bad.append("style_path")

# 1b) model3d traces (documented input: "list of `Trace3d` objects")
c = o.copy(style_model3d_data=o.style.model3d.data)
print("1b copy trace is orig trace            :", c.style.model3d.data[0] is o.style.model3d.data[0])
c.style.model3d.data[0].show = False  # change the COPY only
print("   orig trace.show after changing the copy:", o.style.model3d.data[0].show)
if o.style.model3d.data[0].show is not True:
    bad.append("style_model3d_data")

# 1c) nested magic keyword
c = o.copy(style_magnetization_color=o.style.magnetization.color)
c.style.magnetization.color.north = "#000000"
print("1c orig north colour after changing the copy:", o.style.magnetization.color.north)
if o.style.magnetization.color.north is not None:
    bad.append("style_magnetization_color")

# 1d) template object that is neither the original nor the copy: the override is
#     not "of the copy only" either - the template and the copy stay linked
tmpl = magpy.magnet.Cuboid(style_path_line_width=5)
c = o.copy(style_path=tmpl.style.path)
c.style.path.line.width = 1
print("1d template width after changing the copy:", tmpl.style.path.line.width)
if tmpl.style.path.line.width != 5:
    bad.append("template")

# control: the dictionary form is independent
c = o.copy(style={"path": o.style.path})
print("control copy(style={'path': obj}) shared:", c.style.path is o.style.path)

print("VIOLATION" if bad else "ok", bad)
sys.exit(1 if bad else 0)
