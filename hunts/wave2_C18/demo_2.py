r"""C18 (low): the automatically iterated label is computed wrongly for a label that ends
with digits followed by a newline: regex r"\d+$" also matches before a trailing "\n",
the slice arithmetic then assumes the digits are the very last characters."""
import sys
import magpylib as magpy

s = magpy.Sensor(style_label="col1\n")
lab = s.copy().style.label
print(repr("col1\n"), "->", repr(lab))
# documented iteration: 'col1' -> 'col2' ; anything that keeps "col" + "2" would be fine
ok = lab in ("col2\n", "col2", "col1\n_01")
print("ok" if ok else "VIOLATION: label iterated to %r (digit kept AND new digit appended, newline lost)" % lab)
sys.exit(0 if ok else 1)
