"""Collection with a path, child added afterwards (static child, path length 1):
coll.rotate(rot) with anchor=None rotates the child about the collection position at path
index 0 only, so at the later path indices the child's pose in the collection frame - and
the field seen by the collection's own sensor - changes.  The setters (position=,
orientation=) and rotate with an explicit anchor handle the same tree correctly.
NOTE: outside the literal quantifier of C10 (child is shorter than the collection)."""
import sys

import numpy as np
import magpylib as magpy
from scipy.spatial.transform import Rotation as R


def build():
    src = magpy.misc.Dipole(moment=(0, 0, 1), position=(0, 0, 0))
    coll = magpy.Collection(src)
    coll.move([(1, 0, 0), (2, 0, 0)])  # collection and source: path length 3
    sens = magpy.Sensor(position=(0, 1, 1))  # static
    coll.add(sens)  # added after the operation
    return coll, src, sens


def rel_pos(c, d):
    """child position in the collection frame at every path index (short paths static)"""
    pc = np.atleast_2d(c.position)
    oc = c.orientation
    pd = np.atleast_2d(d.position)
    pd = np.pad(pd, ((0, len(pc) - len(pd)), (0, 0)), "edge")
    return oc.inv().apply(pd - pc)


rot = R.from_rotvec((0, np.pi / 2, 0))
fail = False
for name, op in [
    ("rotate(rot)  [anchor=None]", lambda c: c.rotate(rot)),
    ("orientation = rot*orientation", lambda c: setattr(c, "orientation", rot * c.orientation)),
]:
    coll, src, sens = build()
    r0 = rel_pos(coll, sens)
    B0 = coll.getB()
    op(coll)
    r1 = rel_pos(coll, sens)
    B1 = coll.getB()
    same = np.allclose(r0, r1, atol=1e-12) and np.allclose(B0, B1, rtol=1e-9, atol=1e-20)
    print(name)
    print("  sensor in collection frame before:", r0.round(6).tolist())
    print("  sensor in collection frame after :", r1.round(6).tolist())
    print("  B before:", B0.round(12).tolist())
    print("  B after :", B1.round(12).tolist())
    print("  ->", "unchanged" if same else "CHANGED")
    if name.startswith("rotate") and not same:
        fail = True
print("VIOLATION" if fail else "ok")
sys.exit(1 if fail else 0)
