"""C10 consequence clause: the field of a collection seen by its own sensor must not change
when the collection is rotated.  Straight current segment + sensor on the extension of the
segment: exact field is 0 (and the library returns 0).  After rotating the *collection*
(wire and sensor together, relative pose verified unchanged) the sensor reads ~2e-8 T per
ampere, i.e. the size of the real field of such a wire at that distance.
Root cause: current_polyline_Hfield, catastrophic cancellation in deltaSin/norm_o4 for
observers within ~1e-15..1e-8 (segment lengths) of the segment's extension line; the
on-line mask `norm_o4 < 1e-15` is too narrow."""
import sys

import numpy as np
import magpylib as magpy
from scipy.spatial.transform import Rotation as R


def build():
    wire = magpy.current.Polyline(vertices=[(1, 0, 0), (0, 1, 0)], current=1.0)
    sens = magpy.Sensor(position=(-2, 3, 0))  # on the line x+y=1, 2.8 m beyond the segment end
    return magpy.Collection(wire, sens), wire, sens


def rel(c, d):
    oc = c.orientation
    return oc.inv().apply(d.position - c.position), (oc.inv() * d.orientation).as_matrix()


fail = False
coll, wire, sens = build()
B0 = coll.getB()
print("before            B seen by own sensor:", B0)
for ang, ax in [(193, "x"), (208, "x"), (133, (1, 2, 3)), (167, (1, 2, 3))]:
    coll, wire, sens = build()
    r0 = [rel(coll, wire), rel(coll, sens)]
    coll.rotate_from_angax(ang, ax)
    r1 = [rel(coll, wire), rel(coll, sens)]
    pose_ok = all(np.allclose(a[0], b[0], atol=1e-12) and np.allclose(a[1], b[1], atol=1e-12) for a, b in zip(r0, r1))
    B1 = coll.getB()
    print(f"rotate_from_angax({ang}, {ax!r}): relative poses kept: {pose_ok};  B seen by own sensor: {B1}")
    if np.abs(B1 - B0).max() > 1e-12:
        fail = True

# same effect with a second segment, so that the true field is not zero
wire = magpy.current.Polyline(vertices=[(0, 0, 0), (0.1, 0.2, 0.3), (0.1, 0.2, 0.4)], current=1.0)
sens = magpy.Sensor(position=(0.3, 0.6, 0.9))
coll = magpy.Collection(wire, sens)
B0 = coll.getB()
rng = np.random.default_rng(1)
worst = 0
for _ in range(300):
    coll.rotate(R.from_rotvec(rng.normal(size=3)), anchor=rng.normal(size=3))
    worst = max(worst, np.abs(coll.getB() - B0).max())
print("two segments: |B0| = %.3e T, largest change over 300 collection rotations = %.3e T" % (np.linalg.norm(B0), worst))
if worst > 1e-3 * np.linalg.norm(B0):
    fail = True

# the formula itself (public core function): observer 3e-15 beside the extension line
u = np.random.default_rng(3).normal(size=3)
u /= np.linalg.norm(u)
v = np.cross(u, (0, 0, 1.0))
v /= np.linalg.norm(v)
H = magpy.core.current_polyline_Hfield(
    observers=np.array([3 * u + 3e-15 * v]),
    segments_start=np.zeros((1, 3)),
    segments_end=np.array([u]),
    currents=np.array([1.0]),
)
print("core: |H| 3e-15 m beside the extension line (exact value ~1e-17 A/m):", np.linalg.norm(H))

print("VIOLATION" if fail else "ok")
sys.exit(1 if fail else 0)
