"""Assigning a collection's position/orientation (even re-assigning the *current* value)
end-slices every longer child path down to the collection's path length.
NOTE: outside the literal quantifier of C10 (the moved child no longer shares the
collection's path length when the setter is used) - see report."""
import sys

import numpy as np
import magpylib as magpy

sens = magpy.Sensor(position=(1, 0, 0))
src = magpy.misc.Dipole(moment=(0, 0, 1), position=(0, 0, 0))
coll = magpy.Collection(sens, src)

# operate on the child alone: give the sensor a 3 step path
sens.move([(1, 0, 0), (2, 0, 0)])
print("sensor path before :", sens.position.tolist())
B0 = coll.getB()
print("B seen by own sensor, shape", B0.shape)

coll.position = coll.position  # assign the value it already has
print("collection position:", coll.position.tolist())
print("sensor path after  :", np.atleast_2d(sens.position).tolist())
B1 = coll.getB()
print("B seen by own sensor, shape", B1.shape)

fail = np.atleast_2d(sens.position).shape[0] != 3
print("VIOLATION: child lost path entries 0 and 1" if fail else "ok")
sys.exit(1 if fail else 0)
