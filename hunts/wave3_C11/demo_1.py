"""C11: a RecursionError raised inside the re-parenting loop of Collection.add leaves
objects whose parent does not list them (add is validated first, but the mutation phase
calls old_parent.remove(obj), which flattens the whole tree of the old parent)."""
import sys
import magpylib as magpy

DEPTH = sys.getrecursionlimit() + 200

# P holds a sensor b and a very deep chain of nested (empty) collections.
b = magpy.Sensor(style_label="b")
P = magpy.Collection(b, style_label="P")
tip = P
for _ in range(DEPTH):          # built top-down: each add() only inspects the new, empty collection
    new = magpy.Collection()
    tip.add(new)
    tip = new

a = magpy.Sensor(style_label="a")   # free object
target = magpy.Collection(style_label="target")

exc = None
try:
    target.add(a, b, override_parent=True)     # a is re-parented, then P.remove(b) blows the stack
except BaseException as e:                     # noqa
    exc = e
print("add raised:", type(exc).__name__)
print("a.parent          :", a.parent)
print("target.children   :", target.children)
print("b.parent          :", b.parent, "| b in P.children:", any(c is b for c in P.children))

bad = a.parent is target and not any(c is a for c in target.children)

# same through a typed setter, whose roll-back does not undo the partial add
a2 = magpy.Sensor(style_label="a2")
t2 = magpy.Collection(magpy.Sensor(style_label="old"), style_label="t2")
exc2 = None
try:
    t2.sensors = [a2, b]
except BaseException as e:                     # noqa
    exc2 = e
print("setter raised:", type(exc2).__name__)
print("a2.parent         :", a2.parent)
print("t2.children       :", t2.children)
bad2 = a2.parent is t2 and not any(c is a2 for c in t2.children)

if bad or bad2:
    print("VIOLATION: object has a parent that does not list it among its children")
    sys.exit(1)
sys.exit(0)
