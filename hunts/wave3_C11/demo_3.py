"""C11 (arguable, incomplete repair of 'copy(parent=...) assigns the parent last'): a rejected
Collection.copy(children=..., <bad kw>) has already moved the given children out of their parent
into the unfinished copy, which is then thrown away."""
import sys
import magpylib as magpy

a = magpy.Sensor(style_label="a")
P = magpy.Collection(a, style_label="P")
c = magpy.Collection(style_label="c")
try:
    c.copy(children=[a], position="bad")
except Exception as e:  # noqa
    print("copy raised:", type(e).__name__)
print("P.children:", P.children)
print("a.parent  :", a.parent, "(the discarded, unfinished copy)")
changed = not (a.parent is P and len(P.children) == 1)
# the forest itself is still consistent:
print("a.parent lists a:", any(x is a for x in a.parent.children) if a.parent is not None else None)
if changed:
    print("rejected copy() changed the tree")
    sys.exit(1)
sys.exit(0)
