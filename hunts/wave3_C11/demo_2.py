"""C11: Collection.remove locates the child by equality (==, list.remove, `in`) while add and the
typed setters use identity. For objects of a user subclass with value equality, remove() takes the
wrong object out of the children list but clears the parent link of the requested one."""
import sys
import numpy as np
import magpylib as magpy


class PosSensor(magpy.Sensor):
    """sensor with value semantics: equal when at the same position"""

    def __eq__(self, other):
        return isinstance(other, PosSensor) and np.array_equal(self.position, other.position)

    def __hash__(self):
        return hash(tuple(np.ravel(self.position)))


a = PosSensor(style_label="a")
b = PosSensor(style_label="b")          # a == b, a is not b
coll = magpy.Collection(a, b, style_label="coll")
coll.remove(b)
print("after coll.remove(b):")
print("  coll.children :", coll.children)
print("  a.parent      :", a.parent)
print("  b.parent      :", b.parent)
v1 = (a.parent is coll and not any(c is a for c in coll.children)) or (
    b.parent is None and any(c is b for c in coll.children)
)

# an equal object that never was a child
a2 = PosSensor(style_label="a2")
c2 = magpy.Collection(a2, style_label="c2")
stranger = PosSensor(style_label="stranger")
c2.remove(stranger)                       # accepted although stranger is no child
print("after c2.remove(stranger):")
print("  c2.children   :", c2.children)
print("  a2.parent     :", a2.parent)
v2 = a2.parent is c2 and not any(c is a2 for c in c2.children)

if v1 or v2:
    print("VIOLATION: parent/children links disagree")
    sys.exit(1)
sys.exit(0)
