"""C09 demo 7: `start` given as a narrow numpy integer wraps around inside path_padding_param.

check_start_type explicitly accepts np.integer.  start + lenip is evaluated in the dtype of
`start`, so np.int8(127)+1 == -128 / np.uint8(255)+1 == 0: no padding is computed and the call
silently does nothing (scalar input) instead of edge-padding the path and applying the input.
"""
import sys
import warnings
import numpy as np
import magpylib as magpy

warnings.simplefilter("ignore")
bad = False
for st in (np.int8(127), np.uint8(255)):
    ref = magpy.Sensor(position=[(0, 0, 0), (1, 0, 0)]).move((0, 0, 1), start=int(st))
    s = magpy.Sensor(position=[(0, 0, 0), (1, 0, 0)])
    try:
        s.move((0, 0, 1), start=st)
        print(repr(st), ": path length", len(s.position), "last", s.position[-1],
              "| with python int: path length", len(ref.position), "last", ref.position[-1])
        bad |= len(s.position) != len(ref.position)
    except Exception as e:
        print(repr(st), "rejected", type(e).__name__)
print("VIOLATION" if bad else "ok")
sys.exit(1 if bad else 0)
