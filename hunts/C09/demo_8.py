"""C09 demo 8: an EMPTY vector input (n=0) with an out-of-range start still pads the path.

Vector input of length n is applied to n entries and the path is edge-padded only where the
input reaches beyond it; an input of length 0 reaches nowhere, yet the path grows.
"""
import sys
import numpy as np
import magpylib as magpy

bad = False
for st in ("auto", 1, 7, -5):
    s = magpy.Sensor(position=[(0, 0, 0), (1, 0, 0)])
    s.move(np.zeros((0, 3)), start=st)
    print("move(zeros((0,3)), start=%r): path length 2 ->" % (st,), len(s.position))
    bad |= len(s.position) != 2
print("VIOLATION" if bad else "ok")
sys.exit(1 if bad else 0)
