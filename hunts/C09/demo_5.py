"""C09 demo 5: rotate_from_angax silently applies NO rotation for a long (finite) axis vector.

The axis is normalised with np.linalg.norm, which overflows to inf for components >~1e154, so
axis/inf*angle == 0 and the call is accepted as the identity rotation.
"""
import sys
import warnings
import numpy as np
from scipy.spatial.transform import Rotation as R
import magpylib as magpy

warnings.simplefilter("ignore")
axis = (1e160, 1e160, 0)
a = magpy.Sensor(position=(0, 1, 0)).rotate_from_angax(90, axis, anchor=0)
u = np.array([1, 1, 0]) / np.sqrt(2)
b = magpy.Sensor(position=(0, 1, 0)).rotate(R.from_rotvec(u * np.pi / 2), anchor=0)
print("rotate_from_angax(90, (1e160,1e160,0)): pos", a.position, "rotvec", a.orientation.as_rotvec())
print("rotate(equivalent rotation)           : pos", b.position, "rotvec", b.orientation.as_rotvec())
bad = not np.allclose(a.position, b.position)
print("VIOLATION" if bad else "ok")
sys.exit(1 if bad else 0)
