"""C09 demo 3: Collection.rotate with an anchor that is a live view of a child's path.

Every child converts the anchor input to an array at the moment it is rotated itself, so a
child that is rotated later sees the anchor values already changed by the in-place rotation of
the earlier child.
"""
import sys
import numpy as np
from scipy.spatial.transform import Rotation as R
import magpylib as magpy

rot = R.from_rotvec([(0, 0, np.pi / 2), (0, 0, np.pi / 2)])   # vector input, n=2

def build():
    c1 = magpy.Sensor(position=[(1, 0, 0), (2, 0, 0)])
    c2 = magpy.Sensor(position=[(0, 5, 0), (0, 6, 0)])
    return c1, c2, magpy.Collection(c1, c2)

# reference: the same anchor VALUES passed as an independent array
c1, c2, coll = build()
anchor_values = c1.position[::-1].copy()
coll.rotate(rot, anchor=anchor_values, start=0)
ref = (c1.position.copy(), c2.position.copy(), coll.position.copy())

# same call, anchor is a (reversed) view of c1's path
c1, c2, coll = build()
coll.rotate(rot, anchor=c1.position[::-1], start=0)
got = (c1.position.copy(), c2.position.copy(), coll.position.copy())

bad = False
for name, r, g in zip(("c1", "c2", "coll"), ref, got):
    same = np.allclose(r, g)
    bad |= not same
    print(name, "with view anchor:", np.round(g, 6).tolist(), "| with copied anchor:", np.round(r, 6).tolist(),
          "" if same else "<-- differs")
print("VIOLATION" if bad else "ok")
sys.exit(1 if bad else 0)
