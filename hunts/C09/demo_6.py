"""C09 demo 6 (depends on the installed scipy, here 1.18.x which is inside the declared
`scipy>=1.8` range): rotate_from_euler with the documented 1-D `angle` array of shape (n,).

Documented: "angle: int, float or array_like with shape (n,)" = vector input of length n
(appended with start='auto'); the docstring example is rotate_from_euler((15,30,45), 'z', ...).
Observed: shape (1,) is treated as SCALAR input (applied to the whole path, nothing appended),
and shape (n>1,) is rejected.  rotate_from_angax with the same arguments behaves as documented.
"""
import sys
import numpy as np
import scipy
import magpylib as magpy

print("scipy", scipy.__version__)
bad = False
a = magpy.Sensor(position=[(1, 0, 0), (2, 0, 0)]).rotate_from_angax([90], "z", anchor=0)
b = magpy.Sensor(position=[(1, 0, 0), (2, 0, 0)])
try:
    b.rotate_from_euler([90], "z", anchor=0)
    print("angax [90]: path length", len(a.position), " euler [90]: path length", len(b.position))
    print("euler result:", np.round(b.position, 6).tolist())
    bad |= len(b.position) != len(a.position) or not np.allclose(a.position, b.position)
except Exception as e:
    print("euler [90] rejected", type(e).__name__, e); bad = True
c = magpy.Sensor(position=(1, 0, 0))
try:
    c.rotate_from_euler((15, 30, 45), "z", anchor=(0, 0, 0))     # docstring example
    print("docstring example ok, path length", len(c.position))
    bad |= len(c.position) != 4
except Exception as e:
    print("docstring example rotate_from_euler((15,30,45),'z',anchor=(0,0,0)) rejected:", type(e).__name__, e)
    bad = True
print("VIOLATION" if bad else "ok")
sys.exit(1 if bad else 0)
