"""C09 demo 4: a rejected rotate(..., anchor=...) call leaves the position path modified.

apply_rotation() updates `_position` in place (subtract anchor, rotate, add anchor) BEFORE the
new orientation is built with R.from_quat / rotation*oldrot.  When that last step raises, the
exception propagates, the orientation is unchanged, but the position has been overwritten.
"""
import sys
import warnings
import numpy as np
from scipy.spatial.transform import Rotation as R
import magpylib as magpy

warnings.simplefilter("ignore")
cases = {
    "rotate_from_mrp((1e160,0,0), anchor=0)":
        lambda s: s.rotate_from_mrp((1e160, 0, 0), anchor=0),
    "rotate_from_angax(90, axis=(1e-170,0,0), anchor=0)":
        lambda s: s.rotate_from_angax(90, (1e-170, 0, 0), anchor=0),
    "rotate_from_quat((1e200,0,0,1e200), anchor=0)":
        lambda s: s.rotate_from_quat((1e200, 0, 0, 1e200), anchor=0),
    "rotate_from_angax(1e308, 'x', anchor=0)":
        lambda s: s.rotate_from_angax(1e308, "x", anchor=0),
    "rotate(<Rotation of shape (2,3)>, anchor=(1,2,3), start=0)":
        lambda s: s.rotate(R.from_quat(np.ones((2, 3, 4))), anchor=(1, 2, 3), start=0),
}
bad = False
for name, call in cases.items():
    s = magpy.Sensor(position=[(0, 1, 0), (0, 2, 0)])
    p0, q0 = s.position.copy(), s.orientation.as_quat().copy()
    try:
        call(s)
        print(name, "-> accepted (no rejection to test)")
        continue
    except Exception as e:
        err = type(e).__name__
    changed = not (np.array_equal(p0, s.position) and np.array_equal(q0, s.orientation.as_quat()))
    print(f"{name}\n    rejected with {err}; position afterwards = {s.position.tolist()}"
          f"  -> {'STATE CHANGED' if changed else 'unchanged'}")
    bad |= changed
print("VIOLATION" if bad else "ok")
sys.exit(1 if bad else 0)
