"""C09 demo 2: Collection.move with a list/tuple that wraps a live view of a child's path.

The ndarray case was fixed (move() copies an ndarray input), but a list or tuple whose
elements are views returned by `child.position` is still re-read after the child has been
moved in place, so every later child and the collection itself get a different displacement.
"""
import sys
import numpy as np
import magpylib as magpy

c1 = magpy.Sensor(position=(1, 0, 0))
c2 = magpy.Sensor(position=(0, 5, 0))
coll = magpy.Collection(c1, c2)

disp = [c1.position]                 # vector input of length 1, element is a view
disp_value = np.array(disp)          # what the caller passed: [[1,0,0]]
coll.move(disp, start=0)

exp_c1 = np.array([1, 0, 0]) + disp_value[0]
exp_c2 = np.array([0, 5, 0]) + disp_value[0]
exp_co = np.array([0, 0, 0]) + disp_value[0]
print("c1  ", c1.position, "expected", exp_c1)
print("c2  ", c2.position, "expected", exp_c2)
print("coll", coll.position, "expected", exp_co)
bad = not (np.allclose(c1.position, exp_c1) and np.allclose(c2.position, exp_c2)
           and np.allclose(coll.position, exp_co))

# same with a path: list(child.position) is a list of row views
c1 = magpy.Sensor(position=[(1, 0, 0), (2, 0, 0)])
c2 = magpy.Sensor(position=[(0, 5, 0), (0, 6, 0)])
coll = magpy.Collection(c1, c2)
d = list(c1.position)
dv = np.array(d)
coll.move(d, start=0)
print("path case c2", c2.position.tolist(), "expected", (np.array([(0, 5, 0), (0, 6, 0)]) + dv).tolist())
bad = bad or not np.allclose(c2.position, np.array([(0, 5, 0), (0, 6, 0)]) + dv)

print("VIOLATION" if bad else "ok")
sys.exit(1 if bad else 0)
