"""C09 demo 1: the pose setters accept a zero-length path -> path length 0 (< 1)."""
import sys
import numpy as np
from scipy.spatial.transform import Rotation as R
import magpylib as magpy

bad = False

s = magpy.Sensor(position=[(1, 2, 3), (4, 5, 6)])
try:
    s.position = np.zeros((0, 3))          # array_like of shape (n,3) with n=0
    print("position=zeros((0,3)) accepted ->",
          "position.shape =", s.position.shape, " len(orientation) =", len(s.orientation))
    if s.position.shape[0] == 0:
        bad = True
except Exception as e:                      # a rejection would be the correct behaviour
    print("position setter rejected empty input:", type(e).__name__)

s2 = magpy.Sensor(position=[(1, 2, 3), (4, 5, 6)])
try:
    s2.orientation = R.from_quat(np.zeros((0, 4)))   # legal scipy Rotation of length 0
    print("orientation=<len-0 Rotation> accepted ->",
          "position.shape =", s2.position.shape, " len(orientation) =", len(s2.orientation))
    if s2.position.shape[0] == 0:
        bad = True
except Exception as e:
    print("orientation setter rejected empty input:", type(e).__name__)

# consequence: object is now unusable, and a Collection op is rejected part-way
if bad:
    a = magpy.Sensor(position=(1, 0, 0))
    coll = magpy.Collection(a, s)
    try:
        coll.move([(0, 0, 1)])
    except Exception as e:
        print("coll.move([(0,0,1)]) raised", type(e).__name__,
              "but first child already changed to", a.position.tolist(),
              "while coll.position =", coll.position.tolist())

print("VIOLATION" if bad else "ok")
sys.exit(1 if bad else 0)
