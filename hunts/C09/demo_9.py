"""C09 demo 9: `coll.position += d` moves the Collection frame but leaves the children behind.

`position` (getter) returns a live view of `_position` (np.squeeze).  Augmented assignment
first modifies that view IN PLACE and then calls the setter.  The Collection setter reads
`old_pos = self._position` - which already holds the new values - so the computed child offset
is unchanged and the children do not follow, unlike `coll.position = coll.position + d`.
"""
import sys
import numpy as np
import magpylib as magpy

d = np.array((0.0, 0.0, 5.0))

c_a = magpy.Sensor(position=(1, 0, 0))
coll_a = magpy.Collection(c_a, position=(0, 0, 0))
coll_a.position = coll_a.position + d            # plain assignment

c_b = magpy.Sensor(position=(1, 0, 0))
coll_b = magpy.Collection(c_b, position=(0, 0, 0))
coll_b.position += d                             # augmented assignment

print("coll.position = coll.position + d : coll", coll_a.position, " child", c_a.position)
print("coll.position += d                : coll", coll_b.position, " child", c_b.position)
bad = not np.allclose(c_a.position, c_b.position)
print("VIOLATION (children did not retain their relative position)" if bad else "ok")
sys.exit(1 if bad else 0)
