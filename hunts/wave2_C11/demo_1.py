"""C11 demo 1: Collection.add(..., override_parent=True) is not exception safe in its
re-parenting loop.  When `old_parent.remove(obj)` raises for the 2nd object (here: a
RecursionError, because remove() flattens the whole old parent tree recursively and that
tree is ~1200 collections deep), the 1st object is left with `parent == c` although `c`
does not list it and its old parent lost it -> the forest is inconsistent after a call
that raised."""
import sys
import magpylib as magpy

# a legal, if unusual, tree: a chain of 1200 nested collections (built outside-in)
root = magpy.Collection()
cur = root
for _ in range(1200):
    new = magpy.Collection()
    cur.add(new)
    cur = new
b = magpy.Sensor()
root.add(b)                     # b is a direct child of root

a = magpy.Sensor()
p1 = magpy.Collection(a)        # a is a child of p1
c = magpy.Collection()

raised = None
try:
    c.add(a, b, override_parent=True)
except BaseException as err:    # RecursionError
    raised = type(err).__name__

listed_in_c = sum(ch is a for ch in c.children)
listed_in_p1 = sum(ch is a for ch in p1.children)
print("add(a, b, override_parent=True) raised:", raised)
print("a.parent is c           :", a.parent is c)
print("c lists a               :", listed_in_c, "time(s);  c.children =", c.children)
print("old parent p1 lists a   :", listed_in_p1, "time(s)")
print("b.parent is root        :", b.parent is root)

# the derived views of the deep tree cannot be computed either
try:
    root.sensors_all
    views = "ok"
except RecursionError:
    views = "RecursionError"
print("root.sensors_all        :", views)

violation = raised is not None and a.parent is c and listed_in_c == 0
print("VIOLATION" if violation else "no violation")
sys.exit(1 if violation else 0)
