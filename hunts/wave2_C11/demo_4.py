"""C11 demo 4: remove() locates children with `==` / list.remove() instead of identity.
For a user subclass with value equality (here: equal when the labels are equal; the same
happens with @dataclass(eq=True) subclasses) Collection.remove(x) removes a DIFFERENT, equal
object from the children list and clears the parent of x -> x stays listed with parent None
and the other object keeps parent == coll although it is no longer listed."""
import sys
import magpylib as magpy


class TaggedSensor(magpy.Sensor):
    """Sensor with value semantics"""

    def __init__(self, tag, **kwargs):
        super().__init__(**kwargs)
        self.tag = tag

    def __eq__(self, other):
        return isinstance(other, TaggedSensor) and self.tag == other.tag

    __hash__ = magpy.Sensor.__hash__


s1 = TaggedSensor("hall")
s2 = TaggedSensor("hall")       # distinct object, equal value
coll = magpy.Collection(s1, s2)
coll.remove(s2)

print("coll.children ids :", [id(c) for c in coll.children], "(s1:", id(s1), " s2:", id(s2), ")")
print("s1.parent is coll :", s1.parent is coll, "| coll lists s1:", any(c is s1 for c in coll.children))
print("s2.parent         :", s2.parent, "| coll lists s2:", any(c is s2 for c in coll.children))

violation = (s1.parent is coll and not any(c is s1 for c in coll.children)) or (
    s2.parent is None and any(c is s2 for c in coll.children)
)
print("VIOLATION" if violation else "no violation")
sys.exit(1 if violation else 0)
