"""C11 demo 3: copy.copy() (shallow copy) of magpylib objects.
 - shallow copy of a child keeps `parent == coll` although coll does not list the copy;
 - shallow copy of a Collection SHARES the private children list with the original, so
   add() on one changes the children of the other while the typed views of the other
   are not updated, and the children keep the original as parent."""
import copy
import sys
import magpylib as magpy

s = magpy.Sensor()
coll = magpy.Collection(s)

s2 = copy.copy(s)
v1 = s2.parent is coll and not any(ch is s2 for ch in coll.children)
print("shallow child copy : s2.parent is coll:", s2.parent is coll,
      "| coll lists s2:", any(ch is s2 for ch in coll.children))

c2 = copy.copy(coll)
print("shallow coll copy  : c2.children =", c2.children, "| child.parent is c2:", c2.children[0].parent is c2)
new = magpy.Sensor()
c2.add(new)
print("after c2.add(new)  : coll.children =", coll.children)
print("                     coll.sensors  =", coll.sensors, "(view of coll.children?)")
print("                     new.parent is coll:", new.parent is coll)
v2 = any(ch is new for ch in coll.children) and new.parent is not coll
v3 = [id(x) for x in coll.sensors] != [id(x) for x in coll.children if isinstance(x, magpy.Sensor)]

violation = v1 or v2 or v3
print("VIOLATION" if violation else "no violation")
sys.exit(1 if violation else 0)
