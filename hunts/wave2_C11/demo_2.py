"""C11 demo 2: child.copy() when the child holds a reference to a sibling (or to its
parent).  BaseGeo.copy() only hides `self._parent` during deepcopy; any other path to the
tree (here a user attribute pointing to a sibling magnet) makes deepcopy clone the whole
parent collection.  The clone lists the copy among its children, but the copy's parent is
None -> 'an object's parent lists it ... and vice versa' is broken, and a later add() puts
the copy into two collections."""
import sys
import magpylib as magpy

magnet = magpy.magnet.Cuboid(polarization=(0, 0, 1), dimension=(1, 1, 1))
sensor = magpy.Sensor(position=(0, 0, 2))
sensor.target = magnet          # plain user attribute: "this sensor watches that magnet"
coll = magpy.Collection(magnet, sensor)

s2 = sensor.copy()
hidden = s2.target.parent       # a clone of `coll` created behind the scenes by copy()
print("s2.parent                        :", s2.parent)
print("hidden clone of coll exists      :", hidden is not None and hidden is not coll)
lists = hidden is not None and any(ch is s2 for ch in hidden.children)
print("hidden clone lists s2 as child   :", lists)

other = magpy.Collection()
other.add(s2)                   # allowed: s2.parent is None
in_two = lists and any(ch is s2 for ch in other.children) and any(ch is s2 for ch in hidden.children)
print("after other.add(s2): s2 is listed by 2 collections:", in_two)
print("   s2.parent is other:", s2.parent is other, "| hidden.sensors:", hidden.sensors if hidden else None)

violation = bool(lists)
print("VIOLATION" if violation else "no violation")
sys.exit(1 if violation else 0)
