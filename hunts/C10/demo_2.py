"""C10 violation 2: assigning a Collection position with an augmented assignment
(``col.position += d``) moves the collection frame but NOT its children, because the
getter returns a live view of the internal path and the setter derives the child offsets
from the (already modified) internal state."""
import sys
import numpy as np
import magpylib as magpy
from scipy.spatial.transform import Rotation as R


def build(N):
    sens = magpy.Sensor(position=[(1, 2, 3)] * N)
    mag = magpy.magnet.Sphere(polarization=(0, 0, 1), diameter=1, position=[(4, 5, 6)] * N)
    col = magpy.Collection(sens, mag, position=[(0, 1, 0)] * N)
    return sens, mag, col


def rel(col, obj):
    diff = np.atleast_2d(obj.position) - np.atleast_2d(col.position)
    return np.atleast_2d(col.orientation.inv().apply(diff))


bad = False
for N in (1, 3):
    # reference: plain assignment
    sens, mag, col = build(N)
    col.position = col.position + np.array((1.0, 0, 0))
    ref = rel(col, mag).copy()
    # augmented assignment
    sens, mag, col = build(N)
    before = rel(col, mag).copy()
    col.position += np.array((1.0, 0, 0))
    after = rel(col, mag)
    print(f"N={N}: col.position ->", col.position.tolist())
    print(f"      mag.position ->", mag.position.tolist(), "(expected x=5)")
    print(f"      rel. position of mag before {before[0]}, after {after[0]}, with plain '=' {ref[0]}")
    bad |= not np.allclose(before, after)

# same root cause, orientation: mutate the returned Rotation, then assign it
sens, mag, col = build(2)
before = rel(col, mag).copy()
ori = col.orientation  # for path length > 1 this is the internal Rotation object itself
if hasattr(ori, "__setitem__"):
    ori[1] = R.from_euler("z", 90, degrees=True)
    col.orientation = ori
    after = rel(col, mag)
    print("orientation variant: rel before", before[1], "after", after[1], "| mag.position", mag.position[1])
    bad |= not np.allclose(before, after)

print("VIOLATION PRESENT" if bad else "no violation")
sys.exit(1 if bad else 0)
