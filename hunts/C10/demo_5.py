"""Borderline (input not documented as legal): a Rotation with N-D shape (scipy>=1.17) is
rejected by Collection.rotate with a plain ValueError, but only after the first child has
already been shifted in place (`ppath -= anchor`), i.e. a rejected operation changes one
child alone."""
import sys
import numpy as np
import magpylib as magpy
from scipy.spatial.transform import Rotation as R

a = magpy.Sensor(position=[(1, 0, 0)] * 2)
b = magpy.Sensor(position=[(2, 0, 0)] * 2)
col = magpy.Collection(a, b, position=[(0, 1, 0)] * 2)
try:
    rot = R.from_rotvec(np.ones((2, 2, 3)))
except Exception as err:
    print("this scipy has no N-D rotations:", err)
    sys.exit(0)
p0 = a.position.copy()
try:
    col.rotate(rot, start=0)
    print("accepted")
except Exception as err:
    print("rejected:", type(err).__name__, str(err)[:80])
print("a before:", p0.tolist(), "after:", a.position.tolist())
bad = not np.allclose(p0, a.position)
print("VIOLATION PRESENT" if bad else "no violation")
sys.exit(1 if bad else 0)
