"""C10 violation 3: Collection.rotate*(anchor=<live view of a member's path>).
``_rotate`` hands the same anchor object to every child and finally to the collection;
the first child is rotated in place, which changes the anchor seen by all later members."""
import sys
import numpy as np
import magpylib as magpy


def build():
    sens = magpy.Sensor(position=[(1, 2, 3), (2, 2, 3), (3, 2, 3)])
    mag = magpy.magnet.Sphere(polarization=(0, 0, 1), diameter=1, position=[(4, 5, 6)] * 3)
    col = magpy.Collection(sens, mag, position=[(0, 1, 0)] * 3)
    return sens, mag, col


def rel(col, obj):
    diff = np.atleast_2d(obj.position) - np.atleast_2d(col.position)
    return np.atleast_2d(col.orientation.inv().apply(diff))


res = {}
for label in ("copy", "view"):
    sens, mag, col = build()
    before = rel(col, sens).copy()
    B0 = col.getB()
    # "at path steps 1 and 2 rotate about where the sensor was one step earlier"
    anchor = sens.position[:2]
    if label == "copy":
        anchor = anchor.copy()
    col.rotate_from_angax([90, 90], "z", anchor=anchor, start=1)
    after = rel(col, sens)
    res[label] = (np.allclose(before, after), np.allclose(B0, col.getB()))
    print(f"[{label}] sensor pose in collection frame before:\n{before}\nafter:\n{after.round(6)}")
    print(f"[{label}] relative pose kept: {res[label][0]} | field at own sensor kept: {res[label][1]}")

# scalar variant
sens = magpy.Sensor(position=(1, 2, 3))
col = magpy.Collection(sens, position=(0, 1, 0))
b = rel(col, sens).copy()
col.rotate_from_angax(90, "z", anchor=sens.position[::-1])
ok_scalar = np.allclose(b, rel(col, sens))
print("[scalar view anchor] relative pose kept:", ok_scalar)

bad = (not all(res["view"])) or (not ok_scalar)
print("VIOLATION PRESENT" if bad else "no violation")
sys.exit(1 if bad else 0)
