"""C10 violation 4: a rejected ``col.children += [child]`` leaves the child twice in the
collection (the getter returns the live list, ``+=`` extends it in place, the setter then
rejects the duplicate and 'restores' the already extended list). A following move/rotate of
the collection is applied twice to that child."""
import sys
import numpy as np
import magpylib as magpy

a = magpy.Sensor(position=(1, 0, 0))
b = magpy.Sensor(position=(2, 0, 0))
col = magpy.Collection(a, b)
try:
    col.children += [a]
    print("assignment accepted")
except Exception as err:  # MagpylibBadUserInput
    print("assignment rejected:", type(err).__name__)
print("children after rejected call:", col.children)
col.move((1, 0, 0))
print("a:", a.position, "(expected [2 0 0])  b:", b.position, " col:", col.position)
bad = not np.allclose(a.position - col.position, (1, 0, 0))
print("VIOLATION PRESENT" if bad else "no violation")
sys.exit(1 if bad else 0)
