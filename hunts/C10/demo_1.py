"""C10 violation 1: Collection.move with a displacement given as a list/tuple that
contains a live view of a member's position (e.g. ``[child.position]``).
The ndarray case was fixed (commit 0dc79df), the list/tuple-wrapped case was not."""
import sys
import numpy as np
import magpylib as magpy


def build():
    sens = magpy.Sensor(position=(1, 2, 3))
    mag = magpy.magnet.Sphere(polarization=(0, 0, 1), diameter=1, position=(4, 5, 6))
    col = magpy.Collection(sens, mag, position=(0, 1, 0))
    return sens, mag, col


def rel(col, obj):
    diff = np.atleast_2d(obj.position) - np.atleast_2d(col.position)
    return np.atleast_2d(col.orientation.inv().apply(diff))


bad = False
for label, wrap in [("list", lambda v: [v]), ("tuple", lambda v: (v,))]:
    sens, mag, col = build()
    rel_before = [rel(col, o).copy() for o in (sens, mag)]
    B_before = col.getB()
    disp = wrap(sens.position)  # shape (1,3) vector input, holds a view of sens._position
    print(f"[{label}] displacement value at call time:", np.array(disp).tolist())
    col.move(disp, start=0)
    print("  sens.position:", sens.position, " (moved by (1,2,3))")
    print("  mag.position :", mag.position, " (expected [5 7 9])")
    print("  col.position :", col.position, " (expected [1 3 3])")
    rel_after = [rel(col, o) for o in (sens, mag)]
    ok_rel = all(np.allclose(x, y) for x, y in zip(rel_before, rel_after))
    ok_B = np.allclose(B_before, col.getB())
    print("  relative poses kept:", ok_rel, "| field at own sensor kept:", ok_B)
    bad |= not (ok_rel and ok_B)

# nested variant: the view belongs to a nested collection
s1 = magpy.Sensor(position=(1, 0, 0))
inner = magpy.Collection(s1, position=(1, 1, 1))
s2 = magpy.Sensor(position=(0, 0, 5))
top = magpy.Collection(inner, s2)
r0 = rel(top, s2).copy(), rel(top, inner).copy()
top.move([inner.position], start=0)
ok = np.allclose(r0[0], rel(top, s2)) and np.allclose(r0[1], rel(top, inner))
print("[nested] inner:", inner.position, "s2:", s2.position, "top:", top.position, "kept:", ok)
bad |= not ok

print("VIOLATION PRESENT" if bad else "no violation")
sys.exit(1 if bad else 0)
