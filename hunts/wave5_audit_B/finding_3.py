"""a68f46d: the roll-back of a rejected copy() only looks into lists and tuples.
The children/sources/sensors setters accept any iterable (object ndarray, generator, set,
dict view, map).  Given in one of these forms, the objects are still taken out of their
collection when a later tree input (parent=..., sensors=...) is rejected."""
import sys
sys.path.pop(0)
import numpy as np
import magpylib as magpy

print(magpy.__file__)

forms = {
    "list": list,
    "tuple": tuple,
    "object ndarray": lambda l: np.array(l, dtype=object),
    "generator": lambda l: (x for x in l),
    "set": set,
    "dict values": lambda l: dict(enumerate(l)).values(),
}
results = {}
for key in ("children", "sources"):
    for name, form in forms.items():
        src = magpy.magnet.Sphere(polarization=(0, 0, 1), diameter=1)
        home = magpy.Collection(src)
        other = magpy.Collection()
        # the form is accepted on its own
        other.copy(**{key: form([src])})
        home.add(src, override_parent=True)
        try:
            other.copy(**{key: form([src]), "parent": "bad"})
            outcome = "no exception"
        except Exception as err:  # pylint: disable=broad-except
            outcome = type(err).__name__
        intact = home.children == [src] and src.parent is home
        results[(key, name)] = intact
        print(f"copy({key}=<{name}>, parent='bad') -> {outcome:22s} home intact: {intact}")

repaired = results[("children", "list")]
broken = [k for k, ok in results.items() if not ok]
bad = repaired and bool(broken)
if bad:
    print("PROBLEM: lists are rolled back, these accepted forms are not:", broken)
elif not repaired:
    print("(no roll-back at all on this tree)")
sys.exit(1 if bad else 0)
