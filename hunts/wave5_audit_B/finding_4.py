"""6122ce1: an empty rotation does nothing again - unless a vector anchor is given.
rotate(empty, anchor=[(1,2,3)]) / rotate_from_angax([], 'z', anchor=[...]) now fails inside
numpy with "cannot reshape array of size 0 into shape (1,4)" (multi_anchor_behavior pads the
empty rotation up to the anchor length).  The tree before the commit gave a MagpylibBadUserInput
that names the problem; scalar anchors ((1,2,3), 0, None) do nothing as the commit says."""
import sys
sys.path.pop(0)
import numpy as np
from scipy.spatial.transform import Rotation as R
import magpylib as magpy

print(magpy.__file__)
empty = R.from_quat(np.zeros((0, 4)))
calls = {
    "rotate(empty)": lambda o: o.rotate(empty),
    "rotate(empty, anchor=(1,2,3))": lambda o: o.rotate(empty, anchor=(1, 2, 3)),
    "rotate(empty, anchor=[(1,2,3)])": lambda o: o.rotate(empty, anchor=[(1, 2, 3)]),
    "rotate(empty, anchor=[(1,2,3),(2,3,4)])": lambda o: o.rotate(empty, anchor=[(1, 2, 3), (2, 3, 4)]),
    "rotate_from_angax([], 'z', anchor=[(1,2,3)])": lambda o: o.rotate_from_angax([], "z", anchor=[(1, 2, 3)]),
    "Collection.rotate_from_rotvec(zeros((0,3)), anchor=[(0,0,0)])": None,
}
out = {}
for name, func in calls.items():
    obj = magpy.Sensor(position=(1, 2, 3))
    if func is None:
        obj = magpy.Collection(obj)
        func = lambda o: o.rotate_from_rotvec(np.zeros((0, 3)), anchor=[(0, 0, 0)])
    try:
        func(obj)
        shape = np.atleast_2d(obj.position).shape
        out[name] = "does nothing" if shape == (1, 3) else f"path {shape}"
    except Exception as err:  # pylint: disable=broad-except
        out[name] = f"{type(err).__name__}: {str(err)[:70]}"
    print(f"{name:62s} -> {out[name]}")
plain_ok = out["rotate(empty)"] == "does nothing"
raw = [k for k, v in out.items() if v.startswith("ValueError")]
bad = plain_ok and bool(raw)
if bad:
    print("PROBLEM: empty rotation is accepted, but with a vector anchor it fails with a raw numpy error")
sys.exit(1 if bad else 0)
