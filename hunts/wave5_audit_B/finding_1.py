"""a68f46d: a rejected copy() restores only one level below the given objects.
copy(sources=[coll]) / copy(sensors=[coll]) flatten `coll` recursively, so sources that sit two
levels below `coll` are taken out too.  The roll-back puts the children list of the
intermediate collection back but not the parent link of the source: the tree is left
inconsistent (the source is listed by two collections, its parent is the discarded copy)."""
import sys
sys.path.pop(0)
import magpylib as magpy

print(magpy.__file__)
s = magpy.magnet.Sphere(polarization=(0, 0, 1), diameter=1, style_label="s")
inner = magpy.Collection(s, style_label="inner")
outer = magpy.Collection(inner, style_label="outer")
other = magpy.Collection(style_label="other")

for kwargs in (dict(sources=[outer], parent="bad"), dict(sources=[outer], sensors=["bad"])):
    try:
        other.copy(**kwargs)
        print("no exception?")
    except Exception as err:  # pylint: disable=broad-except
        print("copy(%s) rejected: %s" % (", ".join(kwargs), type(err).__name__))

print("inner.children      :", inner.children)
print("s.parent            :", s.parent)
in_list = any(c is s for c in inner.children)
link_ok = s.parent is inner
print("s listed by inner   :", in_list)
print("s.parent is inner   :", link_ok)
if s.parent is not None and s.parent is not inner:
    print("s.parent.children   :", s.parent.children, "(the discarded copy still owns s)")
bad = False
if in_list != link_ok:
    print("PROBLEM: children list and parent link disagree after a rejected copy()")
    bad = True
elif not in_list:
    print("(tree not put back, but consistent: s was moved into the discarded copy)")
# field/path semantics are affected as well: moving `inner` no longer moves s
if bad:
    inner.move((1, 0, 0))
    print("after inner.move((1,0,0)): s.position =", s.position, " s.parent.position =", s.parent.position)
    try:
        inner.remove(s)
        print("inner.remove(s) ok; s.parent =", s.parent)
    except Exception as err:  # pylint: disable=broad-except
        print("inner.remove(s) raised", err)
sys.exit(1 if bad else 0)
