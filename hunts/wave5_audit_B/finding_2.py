"""a68f46d: copy(parent=coll) / copy(children=coll.children) became quadratic in len(coll).
_get_tree_links() also walks the children of the *parent* input and stores one full copy of
the parent's children list per child (colls += [obj._parent for obj in objs]), i.e. n+1 list
copies of length n for every copy() call, although nothing can be rejected after `parent`."""
import sys
sys.path.pop(0)
import time
import tracemalloc
import magpylib as magpy

print(magpy.__file__)


def best(func, rep=3):
    out = []
    for _ in range(rep):
        t0 = time.perf_counter()
        func()
        out.append(time.perf_counter() - t0)
    return min(out)


bad = False
x = magpy.Sensor()
for n in (1000, 4000):
    big = magpy.Collection(*[magpy.Sensor() for _ in range(n)])
    t_ref = best(lambda: big.add(x.copy()))  # same result, done by hand
    t_kw = best(lambda: x.copy(parent=big))
    tracemalloc.start()
    x.copy(parent=big)
    peak = tracemalloc.get_traced_memory()[1]
    tracemalloc.stop()
    ratio = t_kw / t_ref
    print(f"n={n}: big.add(x.copy()) {t_ref*1e3:8.3f} ms | x.copy(parent=big) {t_kw*1e3:8.3f} ms"
          f" | factor {ratio:6.1f} | peak memory of one call {peak/1e6:7.1f} MB")
    if n == 4000 and ratio > 20:
        bad = True

# filling a collection with copies through the parent keyword
n = 1500
coll = magpy.Collection()
t0 = time.perf_counter()
for i in range(n):
    x.copy(parent=coll, position=(i, 0, 0))
t_fill = time.perf_counter() - t0
print(f"filling a collection with {n} x.copy(parent=coll): {t_fill:.2f} s")
if bad:
    print("PROBLEM: copy(parent=...) is slower than add(copy()) by a factor that grows with n")
sys.exit(1 if bad else 0)
