"""C08 demo 2: "calling again gives the identical result" fails when an involved object
still carries pending (lazily validated) style arguments that are invalid.

The constructor accepts the arguments without complaint.  The first field call trips over
them (in repr() used for an error message, or in the dataframe labels), raises a style
error that has nothing to do with the field computation, and -- as a side effect -- throws
the pending style arguments away.  The second, identical call therefore behaves differently.

Exit code 1 = violation present.
"""
import sys
import warnings

import magpylib as magpy

warnings.simplefilter("ignore")
bad = 0


def outcome(f):
    try:
        r = f()
        return ("returned", type(r).__name__)
    except Exception as err:  # pylint: disable=broad-except
        return ("raised", type(err).__name__, str(err).splitlines()[0][:70])


def twice(title, f):
    global bad
    o1, o2 = outcome(f), outcome(f)
    print(title)
    print("    1st call:", o1)
    print("    2nd call:", o2)
    if o1 != o2:
        bad += 1
        print("    -> VIOLATION (not identical)")
    else:
        print("    -> ok")


# (a) complete source, output='dataframe': first call raises, second one returns
src = magpy.magnet.Sphere(polarization=(0, 0, 1), diameter=1, style_opacity=5)
twice("(a) Sphere(style_opacity=5).getB(obs, output='dataframe')",
      lambda: src.getB((1, 2, 3), output="dataframe"))

src = magpy.magnet.Cuboid(polarization=(0, 0, 1), dimension=(1, 1, 1), style_bogus=3)
twice("(a2) Cuboid(style_bogus=3).getH(obs, output='dataframe')",
      lambda: src.getH((1, 2, 3), output="dataframe"))

# (b) missing dimension: first call raises the style error, second one MagpylibMissingInput
src = magpy.magnet.Sphere(polarization=(0, 0, 1), style_opacity=5)
twice("(b) Sphere(no diameter, style_opacity=5).getB(obs)", lambda: src.getB((1, 2, 3)))

# (c) the object itself was changed by the failed call: its twin still reports the problem,
#     the object that went through getB silently lost the style arguments
mk = lambda: magpy.magnet.Cuboid(polarization=(0, 0, 1), style_bogus=3)
src, twin = mk(), mk()
print("(c) failed getB:", outcome(lambda: src.getB((1, 2, 3))))
o_src, o_twin = outcome(lambda: src.style), outcome(lambda: twin.style)
print("    obj.style after failed getB:", o_src)
print("    twin.style (never used)    :", o_twin)
if o_src != o_twin:
    bad += 1
    print("    -> VIOLATION (style state changed by a failing field call)")

print("\nviolations observed:", bad)
sys.exit(1 if bad else 0)
