"""C08 demo 1: getB/getH/getJ/getM materialise the lazily-initialised style of the
involved objects (via output='dataframe' labels, or via repr() in error / warning
messages).  The change is visible through the public API: obj.copy() labels the copy
differently afterwards, and a style dict handed over at construction stops being live.

Only legal inputs are used.  Twins are built identically; only one of them goes through
a field computation.  Exit code 1 = violation present.
"""
import sys
import warnings

import numpy as np
import magpylib as magpy

warnings.simplefilter("ignore")
bad = 0


def label_of_copy(obj):
    return obj.copy().style.label


def report(title, touched, twin):
    global bad
    a, b = label_of_copy(touched), label_of_copy(twin)
    flag = "VIOLATION" if a != b else "ok"
    if a != b:
        bad += 1
    print(f"{title}\n    copy().style.label after field call: {a!r}   untouched twin: {b!r}   -> {flag}")


# (a) successful call, output='dataframe' : source AND sensor are changed
mk_src = lambda: magpy.magnet.Cuboid(polarization=(0, 0, 1), dimension=(1, 1, 1))
mk_sens = lambda: magpy.Sensor(position=(1, 2, 3))
src, src_twin, sens, sens_twin = mk_src(), mk_src(), mk_sens(), mk_sens()
for func in (magpy.getB, magpy.getH, magpy.getJ, magpy.getM):
    func(src, sens, output="dataframe")
report("(a) successful getB/H/J/M(..., output='dataframe'): source", src, src_twin)
report("(a) successful getB/H/J/M(..., output='dataframe'): sensor", sens, sens_twin)

# (b) failing call: missing dimension (a failure point named in the property)
mk = lambda: magpy.magnet.Cuboid(polarization=(0, 0, 1))
src, src_twin = mk(), mk()
try:
    src.getB((1, 2, 3))
    print("unexpected: no error")
except Exception as err:  # MagpylibMissingInput
    print("(b) raised", type(err).__name__)
report("(b) failed getB (dimension missing): source", src, src_twin)

# (b2) failing call: missing excitation, source nested two collections deep
mk = lambda: magpy.current.Circle(diameter=1)
src, src_twin = mk(), mk()
col = magpy.Collection(magpy.Collection(src))
try:
    magpy.getH(col, (1, 2, 3))
except Exception as err:
    print("(b2) raised", type(err).__name__)
report("(b2) failed getH (current missing, nested): source", src, src_twin)

# (b3) failing call: CustomSource without field function
src, src_twin = magpy.misc.CustomSource(), magpy.misc.CustomSource()
try:
    magpy.getB(src, (1, 2, 3))
except Exception as err:
    print("(b3) raised", type(err).__name__)
report("(b3) failed getB (field_func missing): source", src, src_twin)

# (c) successful plain ndarray call on a TriangularMesh with unchecked mesh status
mk = lambda: magpy.magnet.TriangularMesh(
    polarization=(0, 0, 1),
    vertices=[(0, 0, 0), (1, 0, 0), (0, 1, 0), (0, 0, 1)],
    faces=[(0, 1, 2), (0, 1, 3), (0, 2, 3), (1, 2, 3)],
    check_open="skip",
    check_disconnected="skip",
    check_selfintersecting="skip",
    reorient_faces="skip",
)
src, src_twin = mk(), mk()
B1 = src.getB((1, 2, 3))
report("(c) successful getB on TriangularMesh(check_open='skip'): source", src, src_twin)

# (d) same root cause, other symptom: a style dict given at construction is live until the
#     style is materialised; a field computation freezes it.
d = {"color": "red"}
src = magpy.magnet.Cuboid(polarization=(0, 0, 1), dimension=(1, 1, 1), style=d)
src_twin = magpy.magnet.Cuboid(polarization=(0, 0, 1), dimension=(1, 1, 1), style=d)
src.getB((1, 2, 3), output="dataframe")
d["color"] = "blue"
a, b = src.style.color, src_twin.style.color
print(f"(d) style.color after caller edits its dict: touched={a!r} twin={b!r} ->",
      "VIOLATION" if a != b else "ok")
bad += a != b

print("\nviolations observed:", bad)
sys.exit(1 if bad else 0)
