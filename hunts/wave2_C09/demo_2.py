"""C09 demo 2 - rotate_from_angax with a short (but non-zero) axis vector.

`axis` only gives the DIRECTION of the rotation axis ("must not be (0,0,0)").
rotate_from_angax normalises with np.linalg.norm(axis), whose intermediate sum of squares
underflows for |axis| < ~1e-154:
  * 1.6e-162 <= |axis| < ~1e-155 : silently WRONG rotation angle (off by up to ~25 deg)
  * |axis| < ~1.5e-162           : ValueError "zero norm quaternions" for a legal axis
so rotate_from_angax(angle, axis) != rotate(R.from_rotvec(angle * axis/|axis|)).
Exit code 1 = violation present.
"""
import sys
import warnings

import numpy as np
import magpylib as magpy
from scipy.spatial.transform import Rotation as R

warnings.simplefilter("ignore")
bad = False
ref = magpy.Sensor(position=(0, 1, 0)).rotate(R.from_rotvec((np.pi / 2, 0, 0)), anchor=0)
print("reference  rotate(R.from_rotvec((pi/2,0,0)), anchor=0):", ref.position)

for scale in (1.0, 1e-100, 1e-158, 1e-160, 1e-161, 2e-162, 1.6e-162, 1e-162, 1e-200, 5e-324):
    s = magpy.Sensor(position=(0, 1, 0))
    try:
        s.rotate_from_angax(90, (scale, 0, 0), anchor=0)
    except Exception as err:  # pylint: disable=broad-except
        print(f"axis=({scale:g},0,0): raised {type(err).__name__}: {err}")
        bad = True
        continue
    err_deg = np.degrees((s.orientation * ref.orientation.inv()).magnitude())
    err_pos = np.abs(s.position - ref.position).max()
    flag = ""
    if err_deg > 1e-9 or err_pos > 1e-9:
        flag = "   <-- WRONG"
        bad = True
    print(f"axis=({scale:g},0,0): angle error {err_deg:.3g} deg, position error {err_pos:.3g}{flag}")

print("VIOLATION PRESENT" if bad else "no violation")
sys.exit(1 if bad else 0)
