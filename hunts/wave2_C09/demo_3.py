"""C09 demo 3 - rotate_from_euler(angle=[a], seq='z'): vector input of length 1 is applied
as scalar input (with the installed SciPy >= 1.17).

Docstring: "angle: int, float or array_like with shape (n,)", and "Vector input of length n
applies the individual n operations to n object path entries ... (start='auto') ->
start=len(object path) for vector input [=append to existing object path]".
rotate_from_angax([45],'z'), rotate_from_rotvec([(0,0,45)]) and
rotate(R.from_rotvec([(0,0,pi/4)])) all APPEND one path entry; rotate_from_euler([45],'z')
instead rotates the WHOLE existing path, because R.from_euler('z',[45]) is now a single
rotation.  (Related to, but not the same as, the known rejection of (n,) angles for n>1:
here nothing is rejected, the result is silently different.)
Exit code 1 = violation present.
"""
import sys

import numpy as np
import magpylib as magpy
from scipy.spatial.transform import Rotation as R

base = magpy.Sensor(position=[(1, 0, 0), (2, 0, 0)])
objs = {
    "rotate(R.from_rotvec([(0,0,pi/4)]))": base.copy().rotate(
        R.from_rotvec([(0, 0, np.pi / 4)]), anchor=0),
    "rotate_from_angax([45],'z')": base.copy().rotate_from_angax([45], "z", anchor=0),
    "rotate_from_rotvec([(0,0,45)])": base.copy().rotate_from_rotvec([(0, 0, 45)], anchor=0),
    "rotate_from_euler([45],'z')": base.copy().rotate_from_euler([45], "z", anchor=0),
}
for k, o in objs.items():
    print(f"{k:40s} path length {len(o._position)}  position[0]={o._position[0]}")
ref = objs["rotate(R.from_rotvec([(0,0,pi/4)]))"]
eul = objs["rotate_from_euler([45],'z')"]
bad = eul._position.shape != ref._position.shape or not np.allclose(eul._position, ref._position)
print("VIOLATION PRESENT" if bad else "no violation")
sys.exit(1 if bad else 0)
