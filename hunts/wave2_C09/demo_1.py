"""C09 demo 1 - a rejected Collection.move / Collection.rotate leaves some children changed.

start=np.uint64(k) is accepted by check_start_type (it is an np.integer), but as soon as
the path of an object has to be padded, np.pad raises TypeError (pad widths (0, np.uint64)
are promoted to float64).  Whether padding is needed depends on the path length of each
object, and Collection.move/rotate change their children one after the other, so the call
is rejected AFTER the first children were already moved/rotated.
Variant: start=np.int8(-3) raises OverflowError only for objects with a path >= 128.
Exit code 1 = violation present.
"""
import sys

import numpy as np
import magpylib as magpy
from scipy.spatial.transform import Rotation as R

bad = False


def snapshot(objs):
    return [(o._position.copy(), o._orientation.as_quat().copy()) for o in objs]


def same(s1, s2):
    return all(
        a[0].shape == b[0].shape and np.array_equal(a[0], b[0]) and np.array_equal(a[1], b[1])
        for a, b in zip(s1, s2)
    )


def case(name, mk, call):
    global bad
    objs = mk()
    before = snapshot(objs)
    try:
        call(objs[-1])
        print(f"{name}: accepted (no violation of 'rejected call changes nothing')")
        return
    except Exception as err:  # pylint: disable=broad-except
        after = snapshot(objs)
        changed = [type(o).__name__ + f"#{i}" for i, (o, b, a) in
                   enumerate(zip(objs, before, after)) if not same([b], [a])]
        print(f"{name}: rejected with {type(err).__name__}: {err}")
        if changed:
            print(f"    -> but these objects were changed: {changed}")
            bad = True
        else:
            print("    -> nothing changed")


def mk_short_long():
    a = magpy.Sensor(position=[(i, 0, 0) for i in range(5)])  # long enough: no padding
    b = magpy.Sensor(position=(0, 1, 0))  # needs padding -> np.pad raises
    return [a, b, magpy.Collection(a, b)]


def mk_int8():
    a = magpy.Sensor(position=[(i, 0, 0) for i in range(5)])
    b = magpy.Sensor(position=[(i, 0, 0) for i in range(200)])
    return [a, b, magpy.Collection(a, b)]


case("Collection.move(vector, start=np.uint64(2))", mk_short_long,
     lambda c: c.move([(0, 0, 1)], start=np.uint64(2)))
case("Collection.move(scalar, start=np.uint64(2))", mk_short_long,
     lambda c: c.move((0, 0, 1), start=np.uint64(2)))
case("Collection.rotate(..., anchor=0, start=np.uint64(2))", mk_short_long,
     lambda c: c.rotate(R.from_rotvec((0, 0, 1)), anchor=0, start=np.uint64(2)))
case("Collection.rotate_from_angax([10], 'z', anchor=(1,2,3), start=np.uint64(2))",
     mk_short_long,
     lambda c: c.rotate_from_angax([10], "z", anchor=(1, 2, 3), start=np.uint64(2)))
case("Collection.move(scalar, start=np.int8(-3)) with a child path of length 200", mk_int8,
     lambda c: c.move((0, 0, 1), start=np.int8(-3)))

# side observation: for a single object a legal integer start beyond the end is refused
s = magpy.Sensor()
try:
    s.move((1, 0, 0), start=np.uint64(3))
    print("single object, start=np.uint64(3): padded to", s._position.shape)
except Exception as err:  # pylint: disable=broad-except
    print("single object, start=np.uint64(3): refused with", type(err).__name__, "-", err,
          "(documented: path is edge-padded)")

print("VIOLATION PRESENT" if bad else "no violation")
sys.exit(1 if bad else 0)
