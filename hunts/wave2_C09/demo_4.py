"""C09 demo 4 (low confidence / design level) - an operation on a Collection does not keep a
child in place inside the collection frame when the child path is SHORTER than the
collection path.

Docs (docs_classes.md, Collection): "An operation applied to a collection moves the frame and
is individually applied to all children such that their relative position in the local
reference frame is maintained."  docs_pos_ori.md: shorter paths are "static beyond their end"
(edge-padding).
With equal path lengths this holds for every move/rotate (checked by fuzzing).  A child that
is shorter than its parent is not padded to the parent length first, so a scalar
rotate (="applied to the whole path") only rotates the child about the FIRST collection
position, and an appended vector move shifts child entries that belong to un-moved
collection entries.
Exit code 1 = violation present.
"""
import sys

import numpy as np
import magpylib as magpy


def rel(coll, obj):
    """child position/orientation in the collection frame for every collection path index
    (child edge-padded = static beyond its end)"""
    n = max(len(coll._position), len(obj._position))
    out = []
    for i in range(n):
        ic = min(i, len(coll._position) - 1)
        io = min(i, len(obj._position) - 1)
        inv = coll._orientation[ic].inv()
        out.append(np.r_[inv.apply(obj._position[io] - coll._position[ic]),
                         (inv * obj._orientation[io]).as_rotvec()])
    return np.array(out)


bad = False
for name, op in {
    "coll.rotate_from_angax(90,'y')  [scalar input, whole path]":
        lambda c: c.rotate_from_angax(90, "y"),
    "coll.move([(0,0,1),(0,0,2)])     [vector input, appended]":
        lambda c: c.move([(0, 0, 1), (0, 0, 2)]),
}.items():
    coll = magpy.Collection(position=[(0, 0, 0), (1, 0, 0), (2, 0, 0)])  # moving frame
    sens = magpy.Sensor(position=(0, 0, 1))
    coll.add(sens)  # static child, path length 1
    before = rel(coll, sens)
    op(coll)
    after = rel(coll, sens)
    n = min(len(before), len(after))
    # compare on the old path entries (front aligned) - they exist before and after
    diff = np.abs(after[:n] - before[:n]).max(axis=1)
    print(name)
    print("   path lengths coll/child:", len(coll._position), len(sens._position))
    print("   change of the child pose in the collection frame per path index:", np.round(diff, 3))
    if diff.max() > 1e-9:
        bad = True

# control: same thing with equal path lengths keeps the relative pose
coll = magpy.Collection(position=[(0, 0, 0), (1, 0, 0), (2, 0, 0)])
sens = magpy.Sensor(position=[(0, 0, 1)] * 3)
coll.add(sens)
before = rel(coll, sens)
coll.rotate_from_angax(90, "y")
print("control (equal lengths) max change:", np.abs(rel(coll, sens) - before).max())

print("VIOLATION PRESENT" if bad else "no violation")
sys.exit(1 if bad else 0)
