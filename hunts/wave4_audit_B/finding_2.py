import os
import sys

# the script lives inside one of the two trees: drop the script directory from sys.path so
# that the tree is selected by PYTHONPATH only
_here = os.path.dirname(os.path.abspath(__file__))
if sys.path and os.path.abspath(sys.path[0] or os.getcwd()) == _here:
    sys.path.pop(0)
import warnings

warnings.simplefilter("ignore")
import magpylib as magpy

print("tree:", os.path.dirname(os.path.dirname(magpy.__file__)))
"""0c17cf5 (+3c55826): copy(parent=<rejected>, children=[x]) raises, but x has been pulled out of
its collection. On the base tree the keyword arguments were applied in the given order, so the
rejected parent was detected before the children were touched."""
from magpylib import Collection, Sensor

problems = 0
for name, make_parent in (("parent='bad'", lambda p: "bad"), ("parent=p, children=[p, x] (cycle)", lambda p: p)):
    x = Sensor()
    home = Collection(x)
    p = Collection()
    grand = Collection(p)
    c = Collection()
    par = make_parent(p)
    kids = [x] if par == "bad" else [p, x]
    try:
        c.copy(parent=par, children=kids)
        print(name, ": no exception")
    except Exception as err:  # pylint: disable=broad-except
        print(name, ": raised", type(err).__name__)
    ok = x.parent is home and home.children == [x] and p.parent is grand
    print("   x still child of its collection:", x.parent is home, "| home.children:", home.children,
          "| p still child of its collection:", p.parent is grand)
    problems += not ok
print("PROBLEM: rejected copy() changed the tree of the given children" if problems else "ok: rejected copy() left the tree unchanged")
sys.exit(1 if problems else 0)
