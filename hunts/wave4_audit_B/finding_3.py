import os
import sys

# the script lives inside one of the two trees: drop the script directory from sys.path so
# that the tree is selected by PYTHONPATH only
_here = os.path.dirname(os.path.abspath(__file__))
if sys.path and os.path.abspath(sys.path[0] or os.getcwd()) == _here:
    sys.path.pop(0)
import warnings

warnings.simplefilter("ignore")
import magpylib as magpy

print("tree:", os.path.dirname(os.path.dirname(magpy.__file__)))
"""0c17cf5 incomplete: the message says the tree inputs of copy() are applied 'after all inputs
that can be rejected', but the tree inputs themselves can be rejected: an earlier tree input has
then already been applied (children taken out of their collection) although copy() raises."""
from magpylib import Collection, Sensor
from magpylib.magnet import Sphere

problems = 0
cases = {
    "children=[x], sensors=['bad']": lambda x, s, c: dict(children=[x], sensors=["bad"]),
    "sensors=[x], sources='bad'": lambda x, s, c: dict(sensors=[x], sources="bad"),
    "sources=[s], children=[x, x]": lambda x, s, c: dict(sources=[s], children=[x, x]),
}
for name, kw in cases.items():
    x, s = Sensor(), Sphere(polarization=(0, 0, 1), diameter=1)
    home = Collection(x, s)
    c = Collection()
    try:
        c.copy(**kw(x, s, c))
        print(name, ": no exception")
        continue
    except Exception as err:  # pylint: disable=broad-except
        print(name, ": raised", type(err).__name__)
    ok = home.children == [x, s] and x.parent is home and s.parent is home
    print("   home.children after the rejected call:", home.children, "| x.parent is home:", x.parent is home, "| s.parent is home:", s.parent is home)
    problems += not ok
print("PROBLEM: rejected copy() took children out of their collection" if problems else "ok")
sys.exit(1 if problems else 0)
