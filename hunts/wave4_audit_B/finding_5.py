import os
import sys

# the script lives inside one of the two trees: drop the script directory from sys.path so
# that the tree is selected by PYTHONPATH only
_here = os.path.dirname(os.path.abspath(__file__))
if sys.path and os.path.abspath(sys.path[0] or os.getcwd()) == _here:
    sys.path.pop(0)
import warnings

warnings.simplefilter("ignore")
import magpylib as magpy

print("tree:", os.path.dirname(os.path.dirname(magpy.__file__)))
"""2b80a0e: side effect on valid input. coll.remove(x, x) (or a list naming a child twice, or a
child together with the sub-collection it was just removed with) succeeded on the base tree; now the
second occurrence counts as 'not found': with the default errors='raise' the call raises
after having removed x (partially applied), and an invalid `errors` value is only now noticed."""
from magpylib import Collection, Sensor

x, y = Sensor(), Sensor()
c = Collection(x, y)
try:
    c.remove(x, x)
    print("c.remove(x, x): ok, children:", c.children)
    raised = False
except Exception as err:  # pylint: disable=broad-except
    print("c.remove(x, x): raised", type(err).__name__, "-", str(err).split("\n", maxsplit=1)[0][:70])
    print("   children after the rejected call:", c.children, "(x was removed although the call raised)")
    raised = True
print("PROBLEM: removing the same child twice in one call raises now" if raised else "ok (base behaviour)")
sys.exit(1 if raised else 0)
