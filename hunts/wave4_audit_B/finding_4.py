import os
import sys

# the script lives inside one of the two trees: drop the script directory from sys.path so
# that the tree is selected by PYTHONPATH only
_here = os.path.dirname(os.path.abspath(__file__))
if sys.path and os.path.abspath(sys.path[0] or os.getcwd()) == _here:
    sys.path.pop(0)
import warnings

warnings.simplefilter("ignore")
import magpylib as magpy

print("tree:", os.path.dirname(os.path.dirname(magpy.__file__)))
"""0c17cf5: behaviour change of a successful call. copy() applied its keyword arguments in the
given order; coll.copy(children=[...], position=p) therefore first installed the new children and
then moved the copy *with* them (setting the position of a collection moves its children along).
Now position/orientation are always applied before the children input, so the same call leaves
the new children where they were - and the result no longer depends on the written order."""
import numpy as np
from magpylib import Collection, Sensor

res = {}
for order in ("children first", "position first"):
    x = Sensor(position=(1, 1, 1))
    c = Collection(Sensor())
    if order == "children first":
        cp = c.copy(children=[x], position=(10, 0, 0))
    else:
        cp = c.copy(position=(10, 0, 0), children=[x])
    res[order] = x.position.tolist()
    print(f"{order:15s}: copy.position={cp.position.tolist()}  given child ends at {res[order]}")
moved = np.allclose(res["children first"], (11, 1, 1))
print("base behaviour (child moved along with the copy when children come first):", moved)
print("PROBLEM: copy(children=..., position=...) no longer moves the given children" if not moved else "ok (base behaviour)")
sys.exit(0 if moved else 1)
