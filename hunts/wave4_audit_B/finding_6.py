import os
import sys

# the script lives inside one of the two trees: drop the script directory from sys.path so
# that the tree is selected by PYTHONPATH only
_here = os.path.dirname(os.path.abspath(__file__))
if sys.path and os.path.abspath(sys.path[0] or os.getcwd()) == _here:
    sys.path.pop(0)
import warnings

warnings.simplefilter("ignore")
import magpylib as magpy

print("tree:", os.path.dirname(os.path.dirname(magpy.__file__)))
"""cdaacac: the typed setters now flatten the new value *before* the old children are detached
(base: after). A value that refers to the collection itself therefore changed meaning:
coll.sensors = [x0, coll] was accepted on the base tree (-> [x0]) and is rejected now as a
duplicate; coll.sensors = [x1, coll] kept only x1 on the base tree and keeps x1 and x0 now."""
from magpylib import Collection, Sensor

x0, x1 = Sensor(), Sensor()
c = Collection(x0)
diff = False
try:
    c.sensors = [x0, c]
    print("c.sensors = [x0, c]: ok ->", ["x0" if s is x0 else "x1" for s in c.sensors])
except Exception as err:  # pylint: disable=broad-except
    print("c.sensors = [x0, c]: raised", type(err).__name__, "-", str(err)[:80])
    diff = True
c = Collection(x0, override_parent=True)
c.sensors = [x1, c]
names = ["x0" if s is x0 else "x1" for s in c.sensors]
print("c.sensors = [x1, c]: ->", names, "| x0.parent is c:", x0.parent is c)
diff = diff or names != ["x1"]
print("PROBLEM (arguable): self-referring sensors/sources assignment behaves differently from base" if diff else "ok (base behaviour)")
sys.exit(1 if diff else 0)
