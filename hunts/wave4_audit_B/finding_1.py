import os
import sys

# the script lives inside one of the two trees: drop the script directory from sys.path so
# that the tree is selected by PYTHONPATH only
_here = os.path.dirname(os.path.abspath(__file__))
if sys.path and os.path.abspath(sys.path[0] or os.getcwd()) == _here:
    sys.path.pop(0)
import warnings

warnings.simplefilter("ignore")
import magpylib as magpy

print("tree:", os.path.dirname(os.path.dirname(magpy.__file__)))
"""cdaacac: Collection(...)/add()/children-style setters became quadratic in the number of
children (duplicate check by slicing + linear identity scans)."""
import time


def best(f, rep=3):
    ts = []
    for _ in range(rep):
        t0 = time.perf_counter()
        f()
        ts.append(time.perf_counter() - t0)
    return min(ts)


def measure(n):
    xs = [magpy.Sensor() for _ in range(n)]
    ys = [magpy.Sensor() for _ in range(n)]
    t_ctor = best(lambda: magpy.Collection(*xs, override_parent=True))
    c = magpy.Collection(*xs, override_parent=True)
    state = {"flip": False}

    def setch():
        state["flip"] = not state["flip"]
        c.children = ys if state["flip"] else xs

    t_set = best(setch)
    return t_ctor, t_set


n1, n2 = 1500, 6000
a1, b1 = measure(n1)
a2, b2 = measure(n2)
print(f"Collection(*objs):      n={n1}: {a1*1e3:8.2f} ms   n={n2}: {a2*1e3:8.2f} ms   ratio {a2/a1:5.1f} (linear would be {n2/n1:.0f})")
print(f"coll.children = objs:   n={n1}: {b1*1e3:8.2f} ms   n={n2}: {b2*1e3:8.2f} ms   ratio {b2/b1:5.1f} (linear would be {n2/n1:.0f})")
quadratic = a2 / a1 > 9 or b2 / b1 > 9
print("PROBLEM: quadratic scaling of add/children assignment" if quadratic else "ok: linear scaling")
sys.exit(1 if quadratic else 0)
