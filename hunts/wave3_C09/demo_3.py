"""C09 demo 3: a move() that is rejected with an exception leaves position and orientation
paths with different lengths (and an in-place modified position path). Trigger: floating
point overflow while NumPy is told to raise (np.errstate(over='raise') or warnings as
errors), the orientation path is stored before `ppath[start:end] += inpath` is executed."""
import sys
import warnings
import numpy as np
import magpylib as magpy

bad = False
s = magpy.Sensor(position=(1e308, 0, 0))
with np.errstate(over="raise"):
    try:
        s.move([(1e308, 0, 0), (1e308, 0, 0)])
        print("accepted")
    except FloatingPointError as e:
        print("move rejected with FloatingPointError:", e)
lp, lo = len(np.atleast_2d(s.position)), len(s.orientation) if not s.orientation.single else 1
print("position path length", lp, "orientation path length", lo)
bad |= lp != lo

# same with `python -W error` / pytest filterwarnings=error style
s = magpy.Sensor(position=[(1e308, 0, 0), (1, 1, 1)])
before = s.position.copy()
with warnings.catch_warnings():
    warnings.simplefilter("error")
    try:
        s.move((1e308, 0, 0))
    except RuntimeWarning as e:
        print("move rejected with RuntimeWarning-as-error:", e)
print("position before:", before.tolist())
print("position after :", s.position.tolist())
bad |= not np.array_equal(before, s.position)
sys.exit(1 if bad else 0)
