"""C09 demo 1: rotate_from_euler with the documented vector form angle=(n,) and a
single-axis seq is rejected (n>1) or treated as scalar input (n=1) instead of being
applied entry-wise/appended like the equivalent rotate()/rotate_from_angax() call."""
import sys
import numpy as np
import scipy
import magpylib as magpy
from scipy.spatial.transform import Rotation as R

print("scipy", scipy.__version__, "magpylib", magpy.__version__)
bad = False

# (a) docstring example of rotate_from_euler
ref = magpy.Sensor(position=(1, 0, 0)).rotate_from_angax((15, 30, 45), "z", anchor=(0, 0, 0))
s = magpy.Sensor(position=(1, 0, 0))
try:
    s.rotate_from_euler((15, 30, 45), "z", anchor=(0, 0, 0))
    same = s.position.shape == ref.position.shape and np.allclose(s.position, ref.position)
    print("(a) euler (15,30,45) path shape", s.position.shape, "equals angax:", same)
    bad |= not same
except Exception as e:  # pylint: disable=broad-except
    print("(a) rotate_from_euler((15,30,45),'z',anchor=(0,0,0)) raised:", type(e).__name__, e)
    print("    angax reference gives position path of shape", ref.position.shape)
    bad = True

# (b) vector input of length 1 is treated as scalar input
s1 = magpy.Sensor(position=[(1, 0, 0), (2, 0, 0)]).rotate_from_euler([45], "z", anchor=0)
s2 = magpy.Sensor(position=[(1, 0, 0), (2, 0, 0)]).rotate_from_angax([45], "z", anchor=0)
s3 = magpy.Sensor(position=[(1, 0, 0), (2, 0, 0)]).rotate(
    R.from_rotvec([(0, 0, 45)], degrees=True), anchor=0
)
print("(b) path length after length-1 vector input: euler", len(s1.position),
      "angax", len(s2.position), "rotate", len(s3.position))
if len(s1.position) != len(s3.position):
    bad = True
sys.exit(1 if bad else 0)
