"""C09 demo 5: an empty vector input (n=0 operations) is not rejected by move() (unlike empty
position/orientation/rotation inputs) and, with an explicit start, changes the path although no
operation is applied."""
import sys
import numpy as np
import magpylib as magpy
from scipy.spatial.transform import Rotation as R

s = magpy.Sensor(position=[(1, 2, 3), (4, 5, 6)])
n0 = len(s.position)
s.move(np.zeros((0, 3)), start=5)
print("move(empty (0,3) displacement, start=5): path length", n0, "->", len(s.position))
s.move(np.zeros((0, 3)), start=-9)
print("move(empty (0,3) displacement, start=-9): path length ->", len(s.position))
for what, f in [
    ("position = empty", lambda: setattr(s, "position", np.zeros((0, 3)))),
    ("rotate(empty Rotation)", lambda: s.rotate(R.identity(0))),
    ("rotate_from_angax([], 'z')", lambda: s.rotate_from_angax([], "z")),
]:
    try:
        f()
        print(what, "accepted")
    except Exception as e:  # pylint: disable=broad-except
        print(what, "->", type(e).__name__)
sys.exit(1 if len(s.position) != n0 else 0)
