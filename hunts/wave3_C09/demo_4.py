"""C09 demo 4: rotate_from_angax does not equal rotate() with the equivalent rotation when
the (valid, finite, non-zero) axis vector is large or small in magnitude: the norm is computed
with overflow/underflow, so the rotation silently becomes the identity (|axis| >~ 1.4e154),
gets a wrong angle (|axis| ~ 1e-161) or is rejected (|axis| <~ 1e-162)."""
import sys
import warnings
import numpy as np
import magpylib as magpy
from scipy.spatial.transform import Rotation as R

warnings.simplefilter("ignore")
bad = False
for axis in [(1, 1, 0), (1e154, 1e154, 0), (1e200, 0, 0), (3e-162, 4e-162, 0), (1e-170, 0, 0)]:
    ax = np.array(axis) / np.max(np.abs(axis))
    rot = R.from_rotvec(ax / np.linalg.norm(ax) * 90, degrees=True)
    ref = magpy.Sensor(position=(1, 2, 3)).rotate(rot, anchor=0)
    s = magpy.Sensor(position=(1, 2, 3))
    try:
        s.rotate_from_angax(90, axis, anchor=0)
        ang = np.rad2deg(s.orientation.magnitude())
        ok = np.allclose(s.position, ref.position)
        print(f"axis={axis}: applied angle {ang:.4f} deg, position {s.position}, equals rotate(): {ok}")
    except Exception as e:  # pylint: disable=broad-except
        ok = False
        print(f"axis={axis}: raised {type(e).__name__}: {e}")
    bad |= not ok
sys.exit(1 if bad else 0)
