"""C09 demo 2: `obj.orientation = None` on an object with a path of length m>1 does not
"generate a unit orientation for every path step" (setter docstring, class_BaseGeo.py) but
cuts the whole path down to its last entry (position path is end-sliced to length 1)."""
import sys
import numpy as np
import magpylib as magpy
from scipy.spatial.transform import Rotation as R

pos = [(0, 0, 0), (1, 0, 0), (2, 0, 0)]
s = magpy.Sensor(position=pos, orientation=R.from_rotvec([(0, 0, 0.1), (0, 0, 0.2), (0, 0, 0.3)]))
s.orientation = None
print("after `orientation = None`: position =", s.position, " len(orientation path) =", len(s._orientation))
# constructor with the same inputs for comparison
c = magpy.Sensor(position=pos, orientation=None)
print("constructor(position=path, orientation=None): position path length", len(c.position),
      "orientation path length", len(c.orientation))
bad = np.shape(s.position) != (3, 3)
print("position path kept:", not bad)
sys.exit(1 if bad else 0)
