"""C20 violation 7: assigning a style *object* to obj.style is silently ignored (the assignment does
not win, no error), and giving a style object at construction is accepted by the constructor but
makes every later access to obj.style raise TypeError. The setter's own error message says the
input "must be of type <style class>", i.e. instances are meant to be legal.
"""
import sys

import magpylib as magpy
from magpylib.graphics.style import MagnetStyle


def cub(**k):
    return magpy.magnet.Cuboid(polarization=(0, 0, 1), dimension=(1, 1, 1), **k)


bad = []
o = cub()
o.style = MagnetStyle(color="red", opacity=0.5)
print("after  o.style = MagnetStyle(color='red', opacity=0.5):",
      "color =", o.style.color, " opacity =", o.style.opacity, "(expected red / 0.5, or an error)")
if o.style.color != "red":
    bad.append("assignment of style instance silently ignored")

o2 = cub()
o2.style = {"color": "red", "opacity": 0.5}
print("after  o2.style = {'color': 'red', 'opacity': 0.5}    :",
      "color =", o2.style.color, " opacity =", o2.style.opacity)

try:
    o3 = cub(style=MagnetStyle(color="red"))
    print("constructor accepted style=MagnetStyle(color='red')")
    try:
        print("o3.style.color =", o3.style.color)
        if o3.style.color != "red":
            bad.append("ctor style instance ignored")
    except Exception as err:  # pylint: disable=broad-except
        print("but o3.style raises:", type(err).__name__, err)
        bad.append("ctor style instance -> broken object")
except Exception as err:  # pylint: disable=broad-except
    print("constructor rejected style instance:", type(err).__name__, "(fine)")

print("\nVIOLATIONS:", bad if bad else "none")
sys.exit(1 if bad else 0)
