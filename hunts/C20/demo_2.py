"""C20 violation 2: the three documented ways of setting a default style are NOT equivalent.
docs/_pages/user_guide/docs/docs_styles.md lists (1) attribute assignment, (2) assigning a style
dictionary, (3) `update`, and states "All three examples result in the same default style."
Way (2) replaces the whole family default: every leaf not named in the dictionary becomes None,
and `show` of a magnet then crashes.
"""
import sys
import warnings

import magpylib as magpy

warnings.simplefilter("ignore")

# way 1: attributes
magpy.defaults.reset()
magpy.defaults.display.style.magnet.magnetization.show = True
magpy.defaults.display.style.magnet.magnetization.color.mode = "tricolor"
magpy.defaults.display.style.magnet.magnetization.color.north = "grey"
way1 = magpy.defaults.display.style.magnet.as_dict(flatten=True)

# way 2: dictionary (literally the documentation example)
magpy.defaults.reset()
magpy.defaults.display.style.magnet = {
    "magnetization": {"show": True, "color": {"north": "grey", "mode": "tricolor"}}
}
way2 = magpy.defaults.display.style.magnet.as_dict(flatten=True)

# show with the defaults produced by way 2
cube = magpy.magnet.Cuboid(polarization=(1, 0, 0), dimension=(1, 1, 1))
show_error = None
try:
    magpy.show(cube, backend="plotly", return_fig=True)
except Exception as err:  # pylint: disable=broad-except
    show_error = f"{type(err).__name__}: {err}"

# way 3: update
magpy.defaults.reset()
magpy.defaults.display.style.magnet.magnetization.update(
    show=True, color={"north": "grey", "mode": "tricolor"}
)
way3 = magpy.defaults.display.style.magnet.as_dict(flatten=True)
magpy.defaults.reset()

diff = {k: (way1[k], way2[k], way3[k]) for k in way1 if not way1[k] == way2[k] == way3[k]}
print("leaf: (attribute way, dictionary way, update way)")
for k, v in diff.items():
    print(f"  magnet.{k}: {v}")
print("show() after dictionary way:", show_error or "ok")

# object level: same leaf wiped by dict assignment of a sub-style, kept by the other two notations
def cub():
    return magpy.magnet.Cuboid(polarization=(0, 0, 1), dimension=(1, 1, 1))

a, b, c = cub(), cub(), cub()
for o in (a, b, c):
    o.style.path.line.width = 5
a.style.path.marker.size = 3
b.style.update(path_marker_size=3)
c.style.path = {"marker": {"size": 3}}
print("object path.line.width after setting path.marker.size by attribute / update / dict:",
      a.style.path.line.width, b.style.path.line.width, c.style.path.line.width)

violated = bool(diff) or show_error is not None
print("\nVIOLATION PRESENT:", violated)
sys.exit(1 if violated else 0)
