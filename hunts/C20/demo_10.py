"""C20 violation 10 (related to 'reset restores every default'): defaults.display.style.reset()
("Resets all nested properties to their hard coded default values") leaves every default leaf
that has no entry in the hard coded DEFAULTS dictionary at its user value, while
magpy.defaults.reset() restores them.
"""
import sys

import magpylib as magpy

magpy.defaults.reset()
st = magpy.defaults.display.style
fresh = st.as_dict(flatten=True)
st.sensor.arrows.x.show = False
st.markers.opacity = 0.3
st.markers.color = "red"
st.base.label = "zzz"
st.triangularmesh.magnetization.show = False
st.reset()
after = magpy.defaults.display.style.as_dict(flatten=True)
diff = {k: (fresh[k], after[k]) for k in fresh if fresh[k] != after[k]}
print("leaves not restored by defaults.display.style.reset(): (fresh, after)")
for k, v in diff.items():
    print("  ", k, v)
magpy.defaults.reset()
after2 = magpy.defaults.display.style.as_dict(flatten=True)
print("leaves not restored by magpy.defaults.reset():",
      {k: (fresh[k], after2[k]) for k in fresh if fresh[k] != after2[k]})
print("\nVIOLATION PRESENT:", bool(diff))
sys.exit(1 if diff else 0)
