"""C20 violation 3: mixing underscore keywords and nested dictionaries in ONE call is order
dependent: an underscore keyword that precedes a nested dict for the same sub-tree is silently
dropped (different leaves, no conflict, no error). magic_to_dict() overwrites the entry built from
the underscore key when it meets the plain key.
"""
import sys

import magpylib as magpy


def cub(**k):
    return magpy.magnet.Cuboid(polarization=(0, 0, 1), dimension=(1, 1, 1), **k)


res = {}
o = cub(style_path_line_width=3, style_path={"line": {"color": "#ff0000"}})
res["ctor  us-kw, then dict"] = (o.style.path.line.width, o.style.path.line.color)
o = cub(style_path={"line": {"color": "#ff0000"}}, style_path_line_width=3)
res["ctor  dict, then us-kw"] = (o.style.path.line.width, o.style.path.line.color)
o = cub()
o.style.update(path_line_width=3, path={"line": {"color": "#ff0000"}})
res["update us-kw, then dict"] = (o.style.path.line.width, o.style.path.line.color)
o = cub()
o.style.update(path={"line": {"color": "#ff0000"}}, path_line_width=3)
res["update dict, then us-kw"] = (o.style.path.line.width, o.style.path.line.color)
o = cub()
o.style.update({"path_line_width": 3, "path_line": {"color": "#ff0000"}})
res["update one dict, us key first"] = (o.style.path.line.width, o.style.path.line.color)
# sequential (reference behaviour: both values present)
o = cub()
o.style.update(path_line_width=3)
o.style.update(path={"line": {"color": "#ff0000"}})
res["two sequential updates"] = (o.style.path.line.width, o.style.path.line.color)
# family defaults behave the same
magpy.defaults.reset()
magpy.defaults.display.style.current.update(arrow_size=4, arrow={"width": 7})
d = magpy.defaults.display.style.current.arrow
res["defaults.current us-kw, then dict (size,width)"] = (d.size, d.width)
magpy.defaults.reset()

expected = (3, "#ff0000")
violated = False
for k, v in res.items():
    exp = (4, 7) if k.startswith("defaults") else expected
    flag = "" if v == exp else f"   <-- expected {exp}"
    violated |= v != exp
    print(f"{k:48s}: {v}{flag}")
print("\nVIOLATION PRESENT:", violated)
sys.exit(1 if violated else 0)
