"""C20 violation 6: style sub-objects are stored BY REFERENCE when a style-class instance is given,
so the styles of two objects (or of an object and the library defaults) are no longer independent.
 a) b.style.path = a.style.path                      -> a and b share one Path object
 b) obj.style.magnetization = defaults...magnetization -> editing obj's style edits the DEFAULTS
 c) TriangularMesh.to_TriangleCollection()            -> collection shares the mesh's Trace3d objects
 d) Obj(style=a.style.as_dict()) / b.style = a.style.as_dict() -> shared Trace3d objects
"""
import sys
import warnings

import magpylib as magpy

warnings.simplefilter("ignore")


def cub(**k):
    return magpy.magnet.Cuboid(polarization=(0, 0, 1), dimension=(1, 1, 1), **k)


TRACE = {
    "backend": "generic",
    "constructor": "Scatter3d",
    "kwargs": {"x": [0, 1], "y": [0, 1], "z": [0, 1], "mode": "lines"},
}
bad = []

# a)
a, b = cub(style_path_line_width=2), cub()
b.style.path = a.style.path
b.style.path.line.width = 9
print("a) a.style.path.line.width after editing b:", a.style.path.line.width, "(expected 2)")
if a.style.path.line.width != 2:
    bad.append("a")

# b)
magpy.defaults.reset()
o = cub()
o.style.magnetization = magpy.defaults.display.style.magnet.magnetization
o.style.magnetization.show = False
o.style.magnetization.color.north = "blue"
dm = magpy.defaults.display.style.magnet.magnetization
print("b) defaults magnet.magnetization.show / color.north after editing the OBJECT style:",
      dm.show, "/", dm.color.north, "(expected True / #e71111)")
if dm.show is not True or dm.color.north != "#e71111":
    bad.append("b")
magpy.defaults.reset()

# c)
mesh = magpy.magnet.TriangularMesh.from_ConvexHull(
    polarization=(0, 0, 1), points=[(0, 0, 0), (1, 0, 0), (0, 1, 0), (0, 0, 1)]
)
mesh.style.model3d.add_trace(TRACE)
coll = mesh.to_TriangleCollection()
coll.style.model3d.data[0].show = False
coll.style.model3d.data[0].kwargs["z"] = [5, 5]
print("c) mesh trace show / z after editing the collection's trace:",
      mesh.style.model3d.data[0].show, "/", mesh.style.model3d.data[0].kwargs["z"],
      "(expected True / [0, 1])")
if mesh.style.model3d.data[0].show is not True:
    bad.append("c")

# d)
a = cub(style_color="red")
a.style.model3d.add_trace(TRACE)
b = cub(style=a.style.as_dict())
b.style.model3d.data[0].show = False
print("d) a trace show after editing b (built from a.style.as_dict()):",
      a.style.model3d.data[0].show, "(expected True)")
if a.style.model3d.data[0].show is not True:
    bad.append("d")

print("\nVIOLATIONS:", bad if bad else "none")
sys.exit(1 if bad else 0)
