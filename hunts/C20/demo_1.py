"""C20 violation 1: family / base defaults are ignored for leaves whose *object-level* style
class is created with a non-None value (Pixel.size=1, Model3d.showdefault=True, Model3d.data=[],
ArrowSingle.show=True). The object never set these leaves, yet its own (auto-filled) value shadows
`magpy.defaults.display.style.<family>.<leaf>`.
"""
import re
import sys
import warnings

import magpylib as magpy

warnings.simplefilter("ignore")


def cub(**k):
    return magpy.magnet.Cuboid(polarization=(0, 0, 1), dimension=(1, 1, 1), **k)


def sens(**k):
    return magpy.Sensor(pixel=[(0, 0, 0), (0, 0, 0.5)], **k)


def fig_json(*objs, **kw):
    fig = magpy.show(*objs, backend="plotly", return_fig=True, **kw)
    # remove object ids (differ between objects)
    return re.sub(r"id=\d+|\d{12,}", "", fig.to_json())


bad = []

# --- sensor.pixel.size ---------------------------------------------------------------
magpy.defaults.reset()
untouched = fig_json(sens(), cub(position=(2, 0, 0)))
magpy.defaults.display.style.sensor.pixel.size = 4  # family default
via_default = fig_json(sens(), cub(position=(2, 0, 0)))
magpy.defaults.reset()
via_object = fig_json(sens(style_pixel_size=4), cub(position=(2, 0, 0)))
print("sensor.pixel.size=4 as family default changes the figure :", via_default != untouched)
print("sensor.pixel.size=4 as family default == as object style :", via_default == via_object)
if via_default == untouched or via_default != via_object:
    bad.append("sensor.pixel.size family default ignored")

# --- base.model3d.showdefault ---------------------------------------------------------
magpy.defaults.reset()
magpy.defaults.display.style.base.model3d.showdefault = False
n_def = len(magpy.show(cub(), backend="plotly", return_fig=True).data)
magpy.defaults.reset()
n_obj = len(
    magpy.show(cub(style_model3d_showdefault=False), backend="plotly", return_fig=True).data
)
print("traces drawn, base default showdefault=False :", n_def, "(object-level False gives", n_obj, ")")
if n_def != n_obj:
    bad.append("base.model3d.showdefault default ignored")

# --- base.model3d.data ----------------------------------------------------------------
trace = {
    "backend": "generic",
    "constructor": "Scatter3d",
    "kwargs": {"x": [0, 1], "y": [0, 1], "z": [0, 5], "mode": "lines"},
}
magpy.defaults.reset()
n0 = len(magpy.show(cub(), backend="plotly", return_fig=True).data)
magpy.defaults.display.style.base.model3d.data = [trace]
n_def = len(magpy.show(cub(), backend="plotly", return_fig=True).data)
magpy.defaults.reset()
n_obj = len(magpy.show(cub(style_model3d_data=[trace]), backend="plotly", return_fig=True).data)
print("traces drawn: no extra trace", n0, "| trace in base default", n_def, "| trace in object", n_obj)
if n_def != n_obj:
    bad.append("base.model3d.data default ignored")

# --- sensor.arrows.x.show -------------------------------------------------------------
magpy.defaults.reset()
untouched = fig_json(sens())
magpy.defaults.display.style.sensor.arrows.x.show = False
via_default = fig_json(sens())
magpy.defaults.reset()
via_object = fig_json(sens(style_arrows_x_show=False))
print("sensor.arrows.x.show=False as default changes figure:", via_default != untouched,
      "| equals object-level:", via_default == via_object)
if via_default != via_object:
    bad.append("sensor.arrows.x.show default ignored")

magpy.defaults.reset()
print("\nVIOLATIONS:", bad if bad else "none")
sys.exit(1 if bad else 0)
