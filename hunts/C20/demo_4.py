"""C20 violation 4: the colour a style leaf ends up with depends on colours assigned EARLIER to
OTHER objects. color_validator() is wrapped in functools.lru_cache; the int tuple (1, 0, 0)
(rgb 0-255 -> '#010000') and the float tuple (1.0, 0.0, 0.0) (rgb 0-1 -> '#ff0000') are equal and
hash-equal, so whichever is validated first decides the result for both. defaults.reset() does not
clear the cache either.
"""
import subprocess
import sys

CODE = """
import magpylib as magpy
def cub(): return magpy.magnet.Cuboid(polarization=(0, 0, 1), dimension=(1, 1, 1))
first, second = {order}
a, b = cub(), cub()
a.style.color = first
magpy.defaults.reset()
b.style.color = second
print(repr(second), '->', b.style.color)
"""


def run(order):
    out = subprocess.run(
        [sys.executable, "-B", "-c", CODE.format(order=order)],
        capture_output=True, text=True, check=True,
    ).stdout.strip()
    return out


# fresh interpreter each time; only the *other* object's earlier assignment differs
r_alone = run("('red', (0, 0, 1))")            # nothing related before
r_after = run("((0.0, 0.0, 1.0), (0, 0, 1))")  # another object got the float tuple before
print("b.style.color = (0, 0, 1) with unrelated history       :", r_alone)
print("b.style.color = (0, 0, 1) after a.style.color=(0.,0.,1.):", r_after)
r2_alone = run("('red', (0.0, 0.0, 1.0))")
r2_after = run("((0, 0, 1), (0.0, 0.0, 1.0))")
print("b.style.color = (0., 0., 1.) with unrelated history    :", r2_alone)
print("b.style.color = (0., 0., 1.) after a.style.color=(0,0,1):", r2_after)

violated = (r_alone != r_after) or (r2_alone != r2_after)
print("\nVIOLATION PRESENT:", violated)
sys.exit(1 if violated else 0)
