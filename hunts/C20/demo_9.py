"""C20 violation 9: name checking of show() style keywords is wrong in both directions.
 a) `label` is a style leaf of every object (and of defaults.display.style.base) but
    show(style_label=...) and Collection.set_children_styles(label=...) reject it as invalid.
 b) any keyword that merely STARTS with 'style' + one arbitrary character is accepted:
    show(styleXcolor='#ff0000') sets the colour.
 c) an invalid nested name is only rejected if an object of a matching family is displayed:
    show(sensor, style_magnetization_bogus=1) is silently accepted.
"""
import sys
import warnings

import magpylib as magpy

warnings.simplefilter("ignore")


def cub(**k):
    return magpy.magnet.Cuboid(polarization=(0, 0, 1), dimension=(1, 1, 1), **k)


bad = []
# a)
try:
    fig = magpy.show(cub(), backend="plotly", return_fig=True, style_label="mylabel")
    print("a) style_label accepted; legend name:", fig.data[0].name)
except ValueError as err:
    print("a) show(style_label='mylabel') rejected:", str(err).splitlines()[0])
    bad.append("style_label rejected by show")
try:
    magpy.Collection(cub()).set_children_styles(label="x")
except ValueError as err:
    print("a) set_children_styles(label='x') rejected:", str(err).splitlines()[0])
    bad.append("label rejected by set_children_styles")
# b)
try:
    fig = magpy.show(cub(), backend="plotly", return_fig=True,
                     style_magnetization_show=False, styleXcolor="#ff0000")
    print("b) show(styleXcolor='#ff0000') accepted, drawn colour:", fig.data[0].color)
    bad.append("styleXcolor accepted")
except Exception as err:  # pylint: disable=broad-except
    print("b) rejected:", type(err).__name__)
# c)
try:
    magpy.show(magpy.Sensor(), backend="plotly", return_fig=True, style_magnetization_bogus=1)
    print("c) show(sensor, style_magnetization_bogus=1) accepted silently")
    bad.append("invalid nested name accepted when no matching object")
except Exception as err:  # pylint: disable=broad-except
    print("c) rejected:", type(err).__name__)

print("\nVIOLATIONS:", bad if bad else "none")
sys.exit(1 if bad else 0)
