"""C20 violation 11 (low): hidden lazily-initialised style state leaks into copies. The label of
obj.copy() depends on whether the ORIGINAL's style object has been created yet - which a mere
show(obj) or a read access of obj.style does.
"""
import sys
import warnings

import magpylib as magpy

warnings.simplefilter("ignore")


def cub(**k):
    return magpy.magnet.Cuboid(polarization=(0, 0, 1), dimension=(1, 1, 1), **k)


a = cub()
lab_before = a.copy().style.label
magpy.show(a, backend="plotly", return_fig=True)  # only displays a
lab_after = a.copy().style.label
print("label of a.copy() before a was shown:", lab_before)
print("label of a.copy() after  a was shown:", lab_after)
violated = lab_before != lab_after
print("\nVIOLATION PRESENT:", violated)
sys.exit(1 if violated else 0)
