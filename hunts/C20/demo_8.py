"""C20 violation 8: an update that is REJECTED because of an invalid value is applied part-way.
style.update()/constructor kwargs set the top-level properties one after the other, so the valid
entries that sort before the invalid one stick although the call raised. For constructor kwargs
(lazy style init) the error is raised only on the first access of obj.style; afterwards the object
silently keeps the partially applied style and the invalid entry is never reported again.
"""
import sys

import magpylib as magpy


def cub(**k):
    return magpy.magnet.Cuboid(polarization=(0, 0, 1), dimension=(1, 1, 1), **k)


bad = []
o = cub()
try:
    o.style.update(color="red", opacity=5)  # opacity=5 is invalid
    print("update not rejected")
except AssertionError:
    print("update(color='red', opacity=5) raised AssertionError (good)")
print("   color after the rejected update:", o.style.color, "(expected None)")
if o.style.color is not None:
    bad.append("style.update partially applied")

magpy.defaults.reset()
try:
    magpy.defaults.display.style.base.update(color="red", opacity=5)
except AssertionError:
    pass
print("   defaults base.color after rejected defaults update:",
      magpy.defaults.display.style.base.color, "(expected None)")
if magpy.defaults.display.style.base.color is not None:
    bad.append("defaults update partially applied")
magpy.defaults.reset()

o = cub(style_color="red", style_opacity=5)
try:
    o.style
    print("constructor kwargs not rejected")
except AssertionError:
    print("first access of o.style raised AssertionError (good)")
try:
    print("   second access: color =", o.style.color, " opacity =", o.style.opacity,
          "(no error any more)")
    bad.append("invalid ctor style reported once, then partially applied silently")
except AssertionError:
    print("   second access raises again (fine)")

col = magpy.Collection(cub(), cub(), cub())
try:
    col.set_children_styles(color="red", opacity=5)
except AssertionError:
    pass
print("   children colors after rejected set_children_styles:",
      [c.style.color for c in col.children], "(expected all None)")
if any(c.style.color is not None for c in col.children):
    bad.append("set_children_styles partially applied")

print("\nVIOLATIONS:", bad if bad else "none")
sys.exit(1 if bad else 0)
