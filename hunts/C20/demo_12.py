"""C20 violation 12 (low): inside show_context a style keyword given to ONE deferred show() call is
applied to the objects of the OTHER show() calls (all kwargs are merged into one global dict).
"""
import sys
import warnings

import magpylib as magpy

warnings.simplefilter("ignore")


def cub(**k):
    return magpy.magnet.Cuboid(polarization=(0, 0, 1), dimension=(1, 1, 1), **k)


a, b = cub(style_label="a"), cub(style_label="b")
with magpy.show_context(backend="plotly", return_fig=True, style_magnetization_show=False) as sc:
    sc.show(a, col=1, style_color="#ff0000")
    sc.show(b, col=2)  # no colour given for b
fig = sc.show_return_value
cols = {t.name.split(" ")[0]: t.color for t in fig.data}
print("drawn colours:", cols, "(b has no colour in its show call and no own colour)")
violated = cols.get("b") == "#ff0000"
print("\nVIOLATION PRESENT:", violated)
sys.exit(1 if violated else 0)
