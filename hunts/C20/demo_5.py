"""C20 violation 5: caller-owned style dictionaries are mutated / kept by reference, so style
values leak from one object (or one call) to another.
 a) Obj(style=d, style_xxx=...) writes the style_xxx entries INTO the caller's dict d
 b) Obj(style=d) keeps d by reference until the style is first accessed (lazy init)
 c) style.update(d, a_b_c=...) writes into the caller's NESTED dicts
 d) Collection.set_children_styles(d, xxx=...) writes into d
 e) obj.copy(style=d, style_xxx=...) writes into d
"""
import sys

import magpylib as magpy


def cub(**k):
    return magpy.magnet.Cuboid(polarization=(0, 0, 1), dimension=(1, 1, 1), **k)


bad = []

# a) ------------------------------------------------------------------------------------
shared = {"color": "red"}
a = cub(style=shared, style_label="A", style_opacity=0.3)
b = cub(style=shared)  # b is only given {"color": "red"}
print("a) shared dict after constructing a:", shared)
print("   b.style.label / opacity =", b.style.label, "/", b.style.opacity, "(expected None / None)")
if b.style.label is not None or b.style.opacity is not None:
    bad.append("a")

# b) ------------------------------------------------------------------------------------
d = {"color": "red", "path": {"frames": [0, 1]}}
c = cub(style=d)
d["color"] = "blue"           # caller re-uses its dict for something else
d["path"]["frames"][0] = 7
print("b) c.style.color / path.frames =", c.style.color, "/", c.style.path.frames,
      "(expected red / (0, 1))")
if c.style.color != "red" or tuple(c.style.path.frames) != (0, 1):
    bad.append("b")

# c) ------------------------------------------------------------------------------------
d = {"path": {"line": {"color": "#ff0000"}}}
e, f = cub(), cub()
e.style.update(d, path_line_width=3)
f.style.update(d)
print("c) caller dict after e.style.update(d, path_line_width=3):", d)
print("   f.style.path.line.width =", f.style.path.line.width, "(expected None)")
if f.style.path.line.width is not None:
    bad.append("c")

# d) ------------------------------------------------------------------------------------
d = {"color": "g"}
col1, col2 = magpy.Collection(cub()), magpy.Collection(cub())
col1.set_children_styles(d, opacity=0.5)
col2.set_children_styles(d)
print("d) caller dict after col1.set_children_styles(d, opacity=0.5):", d)
print("   col2 child opacity =", col2[0].style.opacity, "(expected None)")
if col2[0].style.opacity is not None:
    bad.append("d")

# e) ------------------------------------------------------------------------------------
d = {"color": "g"}
g = cub().copy(style=d, style_opacity=0.5)
h = cub().copy(style=d)
print("e) caller dict after copy(style=d, style_opacity=0.5):", d)
print("   h.style.opacity =", h.style.opacity, "(expected None)")
if h.style.opacity is not None:
    bad.append("e")

print("\nVIOLATIONS:", bad if bad else "none")
sys.exit(1 if bad else 0)
