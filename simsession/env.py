"""Process environment: where magpylib comes from, global-state reset, pristine checks.

All process-global state of the library that a run could touch is put back here
(DESIGN.md §2.3).  Nothing in this module draws random numbers or reads a clock.
"""
from __future__ import annotations

import copy
import os
import sys
import warnings

_repo_root = None
_pristine = {}


def repo_root() -> str:
    return os.environ.get("VERIF_REPO") or "/repo"


def bootstrap():
    """Make `import magpylib` resolve to the working tree under test and remember pristine globals."""
    global _repo_root
    if _repo_root is not None:
        return _repo_root
    root = os.path.realpath(repo_root())
    if root not in sys.path[:1]:
        sys.path.insert(0, root)
    os.environ.setdefault("MAGPYLIB_VERIF", "1")
    with warnings.catch_warnings():
        warnings.simplefilter("ignore")
        import magpylib  # noqa: F401
        import numpy as np
        from magpylib._src.defaults import defaults_values

    got = os.path.realpath(os.path.dirname(os.path.dirname(magpylib.__file__)))
    if got != root:
        raise RuntimeError(f"magpylib imported from {got}, expected {root}")
    _repo_root = root
    _pristine["DEFAULTS"] = copy.deepcopy(defaults_values.DEFAULTS)
    _pristine["np_err"] = np.geterr()
    _pristine["defaults_dict"] = defaults_digest_source()
    return root


def defaults_digest_source():
    from magpylib._src.defaults.defaults_classes import default_settings

    return default_settings.as_dict(flatten=True, separator=".")


def reset_defaults():
    """Hard reset of the process-global defaults tree (not via the code path under test only:
    DEFAULTS itself is restored from the import-time copy first)."""
    from magpylib._src.defaults import defaults_values
    from magpylib._src.defaults.defaults_classes import Display, default_settings

    if defaults_values.DEFAULTS != _pristine["DEFAULTS"]:
        defaults_values.DEFAULTS.clear()
        defaults_values.DEFAULTS.update(copy.deepcopy(_pristine["DEFAULTS"]))
    default_settings._display = Display()
    default_settings.reset()


def defaults_pristine() -> bool:
    from magpylib._src.defaults import defaults_values

    return (
        defaults_values.DEFAULTS == _pristine["DEFAULTS"]
        and defaults_digest_source() == _pristine["defaults_dict"]
    )


def reset_globals():
    """Cheap per-run reset of everything except the defaults tree."""
    import numpy as np
    from magpylib._src.display import display as _disp
    from magpylib._src.utility import has_parameter

    from . import faults

    np.seterr(**_pristine["np_err"])
    has_parameter.cache_clear()
    try:  # value-keyed caches in the library are process-global state too (see DESIGN.md §2.3)
        from magpylib._src.defaults import defaults_utility as _du

        for name in ("color_validator", "_color_validator"):
            fn = getattr(_du, name, None)
            if hasattr(fn, "cache_clear"):
                fn.cache_clear()
    except ImportError:
        pass
    try:
        _disp.ctx.reset(reset_show_return_value=True)
    except TypeError:  # signature differs
        _disp.ctx.reset()
    faults.reset()
    if "pandas" in sys.modules and sys.modules["pandas"] is None:
        del sys.modules["pandas"]
