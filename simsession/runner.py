"""Multi-process batch driver: seeds -> runs -> aggregate -> minimise -> replay -> verdict."""
from __future__ import annotations

import faulthandler
import json
import multiprocessing
import os
import subprocess
import sys
import time
from collections import Counter
from concurrent.futures import ProcessPoolExecutor, wait, FIRST_COMPLETED

from . import env, evidence, findings
from .core import (HarnessError, Violation, canon, execute, format_exc, generate_and_run, jnorm,
                   run_seed)
from .shrink import Shrinker

CHUNK_TIMEOUT_S = 600


def get_sim(prop):
    import importlib

    mod = importlib.import_module(f"simsession.props.{prop.lower()}")
    return mod.Sim()


def res_to_doc(res, sim=None):
    d = {
        "property": res.prop, "seed": res.seed, "cfg": res.cfg, "world_spec": res.spec, "ops": res.ops,
        "expected_signature": res.signature, "expected_event_digest": res.event_digest,
        "violation_step": res.violation_step,
        "detail": None if res.violation is None else res.violation.detail,
        "event_tail": res.tail,
    }
    return d


def _worker(job):
    prop, tier, verif_seed, start, stop, det_every, n_samples = job
    faulthandler.enable()
    faulthandler.dump_traceback_later(CHUNK_TIMEOUT_S, exit=True)
    out = {"runs": 0, "stats": Counter(), "sigs": set(), "violations": {}, "samples": [],
           "digests": {}, "error": None, "det_pairs": 0, "ops": 0, "violating_runs": 0}
    try:
        env.bootstrap()
        sim = get_sim(prop)
        for i in range(start, stop):
            seed = run_seed(verif_seed, i)
            res = generate_and_run(sim, seed, tier)
            out["runs"] += 1
            out["stats"].update(res.stats)
            out["sigs"] |= res.sigs
            out["ops"] += len(res.ops)
            if i < 64:
                out["digests"][i] = res.event_digest
            if len(out["samples"]) < n_samples and res.violation is None and len(res.ops) >= 2:
                out["samples"].append({"seed": seed, "cfg": res.cfg, "world_spec": res.spec,
                                       "ops": res.ops[:6], "n_ops": len(res.ops)})
            if res.violation is not None:
                out["violating_runs"] += 1
                key = canon(res.signature)
                if key not in out["violations"]:
                    out["violations"][key] = res_to_doc(res)
            if det_every and i % det_every == 0:
                r2 = execute(sim, seed, res.cfg, res.spec, ops=res.ops)
                out["det_pairs"] += 1
                if r2.event_digest != res.event_digest or r2.signature != res.signature:
                    raise HarnessError(
                        f"non-deterministic: seed {seed} generate-mode digest {res.event_digest} "
                        f"!= replay-mode digest {r2.event_digest}")
        if not env.defaults_pristine():
            raise HarnessError("process-global defaults not pristine at end of chunk")
    except BaseException:  # noqa: BLE001 - everything that is not a verdict is reported, not swallowed
        out["error"] = f"chunk {start}:{stop} (VERIF_SEED={verif_seed}): " + format_exc()
    finally:
        faulthandler.cancel_dump_traceback_later()
    return out


def _shrink_worker(job):
    prop, doc, max_seconds = job
    faulthandler.enable()
    faulthandler.dump_traceback_later(max_seconds * 3 + 120, exit=True)
    try:
        env.bootstrap()
        sim = get_sim(prop)
        res = execute(sim, doc["seed"], doc["cfg"], doc["world_spec"], ops=doc["ops"])
        if res.violation is None or res.signature != doc["expected_signature"]:
            return {"error": f"violation of seed {doc['seed']} did not reproduce in the shrink worker "
                             f"(got {res.signature})"}
        best = Shrinker(sim, res, max_seconds=max_seconds).run()
        return {"doc": res_to_doc(best)}
    except BaseException:  # noqa: BLE001
        return {"error": format_exc()}
    finally:
        faulthandler.cancel_dump_traceback_later()


class Batch:
    def __init__(self, prop, tier, verif_seed, home, workers=None, n_runs=None, budget_s=None,
                 quiet=False):
        self.prop, self.tier, self.verif_seed, self.home = prop, tier, verif_seed, home
        self.workers = workers or int(os.environ.get("VERIF_WORKERS", "0")) or min(16, os.cpu_count() or 1)
        self.n_runs = n_runs
        self.budget_s = budget_s
        self.quiet = quiet
        self.t0 = time.monotonic()
        self.agg = {"runs": 0, "stats": Counter(), "sigs": set(), "violations": {}, "samples": [],
                    "digests": {}, "det_pairs": 0, "ops": 0, "violating_runs": 0}
        self.errors = []

    def say(self, *a):
        if not self.quiet:
            print(*a, flush=True)

    def _merge(self, out):
        if out["error"]:
            self.errors.append(out["error"])
        a = self.agg
        a["runs"] += out["runs"]
        a["ops"] += out["ops"]
        a["det_pairs"] += out["det_pairs"]
        a["violating_runs"] += out["violating_runs"]
        a["stats"].update(out["stats"])
        a["sigs"] |= out["sigs"]
        a["digests"].update(out["digests"])
        for k, v in out["violations"].items():
            if k not in a["violations"] or v["seed"] < a["violations"][k]["seed"]:
                a["violations"][k] = v
        for s in out["samples"]:
            if len(a["samples"]) < 4:
                a["samples"].append(s)

    def run(self, chunk=None, det_every=16):
        ctx = multiprocessing.get_context("fork")
        sim = get_sim(self.prop)
        if chunk is None:
            chunk = getattr(sim, "chunk", {}).get(self.tier, 64)
        nxt = 0
        pending = set()
        with ProcessPoolExecutor(max_workers=self.workers, mp_context=ctx) as pool:
            def more():
                if self.n_runs is not None:
                    return nxt < self.n_runs
                return time.monotonic() - self.t0 < self.budget_s

            def submit():
                nonlocal nxt
                stop = nxt + chunk if self.n_runs is None else min(nxt + chunk, self.n_runs)
                job = (self.prop, self.tier, self.verif_seed, nxt, stop, det_every, 2)
                pending.add(pool.submit(_worker, job))
                nxt = stop

            while more() and len(pending) < self.workers * 2:
                submit()
            while pending:
                done, pending = wait(pending, timeout=CHUNK_TIMEOUT_S + 60, return_when=FIRST_COMPLETED)
                if not done:
                    self.errors.append("chunk wall-cap exceeded")
                    for f in pending:
                        f.cancel()
                    break
                for f in done:
                    try:
                        self._merge(f.result())
                    except BaseException as e:  # worker died
                        self.errors.append(f"worker failed: {type(e).__name__}: {e}")
                if self.errors:
                    for f in pending:
                        f.cancel()
                    break
                while more() and len(pending) < self.workers * 2:
                    submit()
        return self.agg

    # ------------------------------------------------------------------ verdict
    def minimise_and_classify(self, max_sigs=8, shrink_seconds=60.0):
        """Minimise one violation per distinct signature, write replay files, re-check each in a
        fresh process, classify against the known-findings file."""
        known = findings.load(self.home)
        viols = sorted(self.agg["violations"].values(), key=lambda d: d["seed"])
        # minimise distinct signatures; prefer ones not matching a known finding
        viols.sort(key=lambda d: findings.match(known, d["expected_signature"]) is not None)
        viols = viols[:max_sigs]
        reports = []
        if not viols:
            return reports
        ctx = multiprocessing.get_context("fork")
        with ProcessPoolExecutor(max_workers=min(self.workers, len(viols)), mp_context=ctx) as pool:
            outs = list(pool.map(_shrink_worker, [(self.prop, d, shrink_seconds) for d in viols]))
        os.makedirs(os.path.join(self.home, "replays"), exist_ok=True)
        for d, o in zip(viols, outs):
            if "error" in o:
                self.errors.append("shrink: " + o["error"])
                continue
            doc = o["doc"]
            path = os.path.join(self.home, "replays", f"{self.prop}-{doc['seed']}.json")
            with open(path, "w") as f:
                json.dump(doc, f, indent=1)  # key order is data (e.g. keyword order): never sort
                f.write("\n")
            ok, msg = replay_fresh(self.home, self.prop, path)
            if not ok:
                self.errors.append(f"replay of {path} in a fresh process did not reproduce: {msg}")
                continue
            k = findings.match(known, doc["expected_signature"])
            reports.append({"path": path, "doc": doc, "known": k})
        return reports


def replay_fresh(home, prop, path):
    envp = dict(os.environ)
    envp["PYTHONHASHSEED"] = "12345"  # a different hash seed on purpose
    p = subprocess.run([os.path.join(home, "check"), prop, "--replay", path, "--machine"],
                       capture_output=True, text=True, timeout=600, env=envp)
    last = [ln for ln in p.stdout.splitlines() if ln.startswith("REPLAY-RESULT ")]
    if not last:
        return False, f"exit {p.returncode}: {p.stdout[-500:]} {p.stderr[-500:]}"
    r = json.loads(last[-1][len("REPLAY-RESULT "):])
    if r.get("reproduced") and r.get("digest_match"):
        return True, ""
    return False, json.dumps(r)


def replay_file(home, prop, path):
    env.bootstrap()
    sim = get_sim(prop)
    with open(path) as f:
        doc = json.load(f)
    res = execute(sim, doc.get("seed", 0), doc["cfg"], doc["world_spec"], ops=doc["ops"])
    return doc, res
