"""Minimisation: ddmin over the op list, then per-op and world-spec simplification,
while the same violation signature persists (DESIGN.md §2.7)."""
from __future__ import annotations

import time

from .core import execute


class Shrinker:
    def __init__(self, sim, res, max_tests=3000, max_seconds=120.0):
        self.sim = sim
        self.seed = res.seed
        self.cfg = res.cfg
        self.spec = res.spec
        self.ops = list(res.ops)
        self.target = res.signature
        self.tests = 0
        self.max_tests = max_tests
        self.deadline = time.monotonic() + max_seconds  # wall cap only; never affects a verdict
        self.best = res

    def _budget(self):
        return self.tests < self.max_tests and time.monotonic() < self.deadline

    def _try(self, spec, ops, cfg=None):
        if not self._budget():
            return False
        self.tests += 1
        try:
            r = execute(self.sim, self.seed, cfg or self.cfg, spec, ops=ops)
        except Exception:  # a candidate the harness cannot even execute is not a reproduction
            return False
        if r.violation is not None and r.signature == self.target:
            # keep only the prefix that was actually executed
            self.spec, self.ops, self.best = spec, list(r.ops), r
            if cfg is not None:
                self.cfg = cfg
            return True
        return False

    def narrow(self):
        """an enumerating op told us which single variant failed: keep only that one"""
        nar = getattr(self.best.violation, "narrow", None)
        step = self.best.violation_step
        if not nar or step is None or step >= len(self.ops):
            return
        op = {k: v for k, v in self.ops[step].items() if not (k in nar and nar[k] is None)}
        op.update({k: v for k, v in nar.items() if v is not None})
        self._try(self.spec, self.ops[:step] + [op] + self.ops[step + 1:])

    def ddmin(self):
        ops = self.ops
        n = 2
        while len(ops) >= 2 and self._budget():
            chunk = max(1, len(ops) // n)
            reduced = False
            for start in range(0, len(ops), chunk):
                cand = ops[:start] + ops[start + chunk:]
                if cand and self._try(self.spec, cand):
                    ops = self.ops
                    n = max(n - 1, 2)
                    reduced = True
                    break
            if not reduced:
                if chunk == 1:
                    break
                n = min(n * 2, len(ops))
        # single-op removal sweep
        i = 0
        while i < len(self.ops) and len(self.ops) > 1 and self._budget():
            cand = self.ops[:i] + self.ops[i + 1:]
            if not self._try(self.spec, cand):
                i += 1

    def simplify_ops(self):
        changed = True
        rounds = 0
        while changed and rounds < 8 and self._budget():
            changed = False
            rounds += 1
            for i in range(len(self.ops)):
                progress = True
                while progress and self._budget():
                    progress = False
                    if i >= len(self.ops):
                        break
                    for cand_op in self.sim.simplify_op(self.ops[i]):
                        cand = self.ops[:i] + [cand_op] + self.ops[i + 1:]
                        if self._try(self.spec, cand):
                            changed = progress = True
                            break

    def simplify_spec(self):
        progress = True
        while progress and self._budget():
            progress = False
            for cand in self.sim.simplify_spec(self.spec, self.ops):
                if self._try(cand, self.ops):
                    progress = True
                    break
        simp_cfg = getattr(self.sim, "simplify_cfg", None)
        if simp_cfg:
            for cand in simp_cfg(self.cfg):
                self._try(self.spec, self.ops, cfg=cand)

    def run(self):
        # the ops after the violating step were never executed
        self._try(self.spec, self.ops)
        self.narrow()
        self.ddmin()
        self.simplify_ops()
        self.simplify_spec()
        self.ddmin()
        self.simplify_ops()
        return self.best
