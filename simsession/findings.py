"""Known-findings protocol (DESIGN.md §2.8).  The file is committed and never written at run time."""
from __future__ import annotations

import json
import os


def load(home):
    path = os.path.join(home, "known_findings.json")
    if not os.path.exists(path):
        return []
    with open(path) as f:
        data = json.load(f)
    return data.get("findings", [])


def match(findings, signature):
    """Return the first *known* (not fixed) entry whose signature is a subset of `signature`."""
    for f in findings:
        if f.get("status") != "known":
            continue
        if f.get("property") != signature.get("property"):
            continue
        want = f.get("signature", {})
        if all(signature.get(k) == v for k, v in want.items()):
            return f
    return None
