"""Object pool built from JSON specs (DESIGN.md §2.2).  Identical twin worlds on demand."""
from __future__ import annotations

import threading
import warnings

import numpy as np
from scipy.spatial.transform import Rotation as R

from . import faults
from .core import HarnessError


def classes():
    import magpylib as magpy

    return {
        "Cuboid": magpy.magnet.Cuboid,
        "Cylinder": magpy.magnet.Cylinder,
        "CylinderSegment": magpy.magnet.CylinderSegment,
        "Sphere": magpy.magnet.Sphere,
        "Tetrahedron": magpy.magnet.Tetrahedron,
        "TriangularMesh": magpy.magnet.TriangularMesh,
        "Triangle": magpy.misc.Triangle,
        "Circle": magpy.current.Circle,
        "Polyline": magpy.current.Polyline,
        "Dipole": magpy.misc.Dipole,
        "CustomSource": magpy.misc.CustomSource,
        "Sensor": magpy.Sensor,
        "Collection": magpy.Collection,
    }


_CLS = None


def cls_of(name):
    global _CLS
    if _CLS is None:
        _CLS = classes()
    return _CLS[name]


def rot_from(spec_rot):
    """spec: list of rotation vectors in degrees (multiples of 7.5) or None."""
    if spec_rot is None:
        return None
    a = np.asarray(spec_rot, dtype=float)
    return R.from_rotvec(a, degrees=True)


class Opaque:
    """An attachment that deepcopy refuses (stands for a lock / handle on a user subclass)."""

    def __init__(self, token):
        self.token = token
        self.lock = threading.Lock()

    def __deepcopy__(self, memo):
        raise TypeError("cannot pickle '_thread.lock' object")


def build_object(ospec):
    cls = cls_of(ospec["cls"])
    kw = {}
    for k, v in ospec.get("kw", {}).items():
        if k == "field_func" and isinstance(v, str):
            v = faults.CALLBACKS[v]
        elif k == "field_func" and isinstance(v, dict):
            # a stateful callable: functools.partial binding a mutable parameter dictionary
            import functools

            v = functools.partial(faults.cbp, params={"amp": float(v["partial_amp"]), "hist": []})
        kw[k] = v
    if ospec.get("pos") is not None:
        kw["position"] = ospec["pos"]
    if ospec.get("rot") is not None:
        kw["orientation"] = rot_from(ospec["rot"])
    if ospec.get("style") is not None:
        kw.update(ospec["style"])  # magic underscore kwargs, e.g. style_color
    if ospec.get("style_dict") is not None:
        kw["style"] = ospec["style_dict"]
    with warnings.catch_warnings():
        warnings.simplefilter("ignore")
        ctor = ospec.get("ctor")
        if ctor == "from_ConvexHull":
            kw2 = {k: v for k, v in kw.items() if k not in ("vertices", "faces", "check_selfintersecting")}
            if kw2.get("reorient_faces") == "skip":
                kw2["reorient_faces"] = False
            obj = cls.from_ConvexHull(points=kw["vertices"], **kw2)
        elif ctor == "from_triangles":
            v, f = kw["vertices"], kw["faces"]
            tris = [cls_of("Triangle")(polarization=(0, 0, 1), vertices=[v[i] for i in face]) for face in f]
            obj = cls.from_triangles(triangles=tris, **{k: x for k, x in kw.items() if k not in ("vertices", "faces")})
        elif ctor == "from_mesh":
            v, f = kw["vertices"], kw["faces"]
            mesh = [[v[i] for i in face] for face in f]
            obj = cls.from_mesh(mesh=mesh, **{k: x for k, x in kw.items() if k not in ("vertices", "faces")})
        else:
            obj = cls(**kw)
        if ospec.get("style_init"):
            obj.style  # noqa: B018  initialise the lazily created style
    return obj


class World:
    """A pool of live magpylib objects addressed by index."""

    def __init__(self, spec):
        self.spec = spec
        self.objs = []
        self._idx = {}
        for ospec in spec["objects"]:
            self.register(build_object(ospec))
        # wiring after all objects exist
        for i, ospec in enumerate(spec["objects"]):
            ch = ospec.get("children")
            if ch:
                self.objs[i].add(*[self.objs[j] for j in ch])

    def register(self, obj):
        self._idx[id(obj)] = len(self.objs)
        self.objs.append(obj)
        return len(self.objs) - 1

    def register_tree(self, obj):
        """register obj and (for collections) its whole subtree, pre-order"""
        first = self.register(obj)
        for ch in getattr(obj, "_children", []) or []:
            if id(ch) not in self._idx:
                self.register_tree(ch)
        return first

    def index(self, obj):
        i = self._idx.get(id(obj))
        if i is None or self.objs[i] is not obj:
            return None
        return i

    def __len__(self):
        return len(self.objs)

    def __getitem__(self, i):
        return self.objs[i % len(self.objs)]

    def is_coll(self, i):
        return hasattr(self.objs[i % len(self.objs)], "_children")

    def colls(self):
        return [i for i, o in enumerate(self.objs) if hasattr(o, "_children")]

    def leaves(self):
        return [i for i, o in enumerate(self.objs) if not hasattr(o, "_children")]


def require(cond, msg):
    if not cond:
        raise HarnessError(msg)
