"""Fault machinery: scripted user callbacks, the fault-point handler, simulated exceptions.

Everything here is driven by data recorded in the op (never by a PRNG): a fault plan is
armed before the target call, fires at most once (single-shot) and is disarmed afterwards.
"""
from __future__ import annotations

import numpy as np


class SimFault(MemoryError):
    """Stands for an allocation failure at a named fault point."""


class SimInterrupt(KeyboardInterrupt):
    """Stands for Ctrl-C at a named fault point."""


class CallbackError(RuntimeError):
    """Raised by a scripted user callback (a bug in user code)."""


# ---------------------------------------------------------------- scripted callbacks
# A fixed pool of module-level functions (has_parameter() is lru_cached on identity).
# Behaviour is looked up at call time in SCRIPT[name].
SCRIPT = {}
CALLS = []  # (name, field, n_observers) recorded when RECORD is on
RECORD = [False]
FIRED = []  # faults that actually fired: (kind, where)


def _base_field(name, field, observers):
    k = int(name[2:]) + 1
    obs = np.asarray(observers, dtype=float)
    out = np.empty((len(obs), 3))
    out[:, 0] = 0.125 * k + 0.5 * obs[:, 1]
    out[:, 1] = -0.25 * k + 0.25 * obs[:, 2] * obs[:, 0]
    out[:, 2] = 0.0625 * k - 0.5 * obs[:, 0]
    scale = {"B": 1.0, "H": 2.0, "J": 0.5, "M": 4.0}.get(field, 1.0)
    return out * scale


def _call(name, field, observers):
    sc = SCRIPT.get(name)
    if RECORD[0]:
        CALLS.append((name, field, len(observers)))
    if sc is None:
        return _base_field(name, field, observers)
    i = sc["count"]
    sc["count"] = i + 1
    mode = sc.get("mode", "ok")
    if mode == "ok" or sc.get("fired"):
        return _base_field(name, field, observers)
    if mode == "none_always":  # a source that simply does not implement this field
        if sc.get("field") in (None, field):
            if not sc.get("noted"):
                sc["noted"] = True
                FIRED.append(("cb_none", name))
            return None
        return _base_field(name, field, observers)
    if i != sc.get("at", 0):
        return _base_field(name, field, observers)
    sc["fired"] = True
    FIRED.append(("cb_" + mode, name))
    if mode == "raise":
        raise CallbackError(f"scripted failure in {name}")
    if mode == "none":
        return None
    if mode == "shape":
        return _base_field(name, field, observers)[:-1] if len(observers) > 1 else np.zeros((2, 3))
    if mode == "type":
        return _base_field(name, field, observers).tolist()
    if mode == "scalar":
        return 1.0
    if mode == "mutate":
        out = _base_field(name, field, observers)
        observers *= 2.0  # in place on the array handed to the callback
        return out
    raise AssertionError(mode)


def cb0(field, observers):
    return _call("cb0", field, observers)


def cb1(field, observers):
    return _call("cb1", field, observers)


def cb2(field, observers):
    return _call("cb2", field, observers)


def cb3(field, observers):
    return _call("cb3", field, observers)


def cbp(field, observers, params=None):
    """field function with bound, mutable parameters (used through functools.partial)"""
    return _call("cb0", field, observers) * (params or {}).get("amp", 1.0)


CALLBACKS = {"cb0": cb0, "cb1": cb1, "cb2": cb2, "cb3": cb3}


def script(name, **kw):
    d = {"count": 0}
    d.update(kw)
    SCRIPT[name] = d


# ---------------------------------------------------------------- line-granular interrupts (sys.settrace)
# A KeyboardInterrupt can arrive at any line.  For the functions of field_wrap_BH.py that take part in
# a field computation, every executed line is a possible crash point - except lines inside `finally:`
# and `except` bodies (recovery code: no double faults).
import ast
import sys

TRACE_FILE_SUFFIX = "fields/field_wrap_BH.py"
TRACE_FUNCS = ("getBH_level2", "getBH_level1", "get_src_dict", "tile_group_property", "getBH_dict_level2")
LINES = []  # (func, lineno) recorded in execution order when RECORD is on
ARMED_LINE = [None]  # (func, lineno)
_RECOVERY = {}  # filename -> set of line numbers inside finally / except bodies


def _recovery_lines(filename):
    r = _RECOVERY.get(filename)
    if r is None:
        r = set()
        try:
            tree = ast.parse(open(filename).read())
            for node in ast.walk(tree):
                if isinstance(node, ast.Try):
                    for part in list(node.finalbody) + [h for h in node.handlers]:
                        for sub in ast.walk(part):
                            if hasattr(sub, "lineno"):
                                r.update(range(sub.lineno, getattr(sub, "end_lineno", sub.lineno) + 1))
        except (OSError, SyntaxError):
            pass
        _RECOVERY[filename] = r
    return r


def _local_tracer(frame, event, arg):
    if event == "line":
        code = frame.f_code
        key = (code.co_name, frame.f_lineno)
        if frame.f_lineno in _recovery_lines(code.co_filename):
            return _local_tracer
        if RECORD[0]:
            LINES.append(key)
        a = ARMED_LINE[0]
        if a is not None and a == key:
            ARMED_LINE[0] = None
            FIRED.append(("line", key))
            raise SimInterrupt(f"{key[0]}:{key[1]}")
    return _local_tracer


def _global_tracer(frame, event, arg):
    code = frame.f_code
    if code.co_name in TRACE_FUNCS and code.co_filename.endswith(TRACE_FILE_SUFFIX):
        return _local_tracer
    return None


class trace_lines:
    """context manager: line events of the traced functions are recorded and/or used as crash points"""

    def __enter__(self):
        self._old = sys.gettrace()
        sys.settrace(_global_tracer)
        return self

    def __exit__(self, *exc):
        sys.settrace(self._old)
        return False


# ---------------------------------------------------------------- fault points in getBH_level2
HITS = []  # (site, key) recorded when RECORD is on
ARMED = [None]  # {"site":..., "key":..., "flavour": "mem"|"int"}
INDEX_OF = [None]  # callable: magpylib object -> pool index (set by the session)


def _key(site, ctx):
    idx = INDEX_OF[0]
    if idx is None:
        return None
    if "obj" in ctx:
        return idx(ctx["obj"])
    if "group" in ctx:
        g = ctx["group"]
        return idx(g[0]) if g else None
    return None


def handler(site, ctx):
    key = _key(site, ctx)
    if RECORD[0]:
        HITS.append((site, key))
    a = ARMED[0]
    if a is not None and a["site"] == site and a.get("key") == key:
        ARMED[0] = None
        FIRED.append(("hook@" + site, key))
        if a.get("flavour") == "int":
            raise SimInterrupt(site)
        raise SimFault(site)


ORDER = [0]  # seed deciding the iteration order of the tiled-object set (0 = input order)


def order_handler(name, items):
    """The simulator, not object addresses, decides the hash-set iteration order."""
    items = list(items)
    if ORDER[0]:
        import random

        random.Random(ORDER[0]).shuffle(items)
    return items


def install():
    """Install the handlers if the tree under test has the guarded hooks (it need not)."""
    try:
        from magpylib._src import _verif
    except ImportError:
        return False
    _verif.set_handler(handler)
    if hasattr(_verif, "set_order_handler"):
        _verif.set_order_handler(order_handler)
    return bool(getattr(_verif, "ENABLED", False))


def reset():
    SCRIPT.clear()
    CALLS.clear()
    HITS.clear()
    FIRED.clear()
    RECORD[0] = False
    ARMED[0] = None
    ARMED_LINE[0] = None
    LINES.clear()
    INDEX_OF[0] = None
    ORDER[0] = 0
