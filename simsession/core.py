"""simsession core: seeds, violations, event logs, the generate/execute loop.

One integer decides everything (DESIGN.md §2.2): a run seed initialises one
``random.Random``; only *generators* draw from it.  Executing a recorded
(cfg, world_spec, ops) triple is a pure function of that data and the code
under test, which is what shrinking and replay rely on.
"""
from __future__ import annotations

import hashlib
import json
import os
import random
import sys
import traceback
from collections import Counter

MASK63 = (1 << 63) - 1


def run_seed(verif_seed: int, i: int) -> int:
    """i-th run seed of a batch started with VERIF_SEED=verif_seed."""
    return (verif_seed * 1000003 + i) & MASK63


class Violation(Exception):
    """A property violation observed by an oracle (never a harness problem)."""

    def __init__(self, oracle: str, detail: str = "", **sig):
        super().__init__(f"{oracle}: {detail}")
        self.oracle = oracle
        self.detail = detail
        self.sig = {"oracle": oracle}
        self.sig.update({k: v for k, v in sig.items() if v is not None})


class HarnessError(Exception):
    """Anything that is not a verdict: generator/model/snapshot bugs, non-determinism."""


def canon(x) -> str:
    return json.dumps(x, sort_keys=True, separators=(",", ":"), default=_json_default)


def _json_default(o):
    if isinstance(o, bytes):
        return "b:" + o.hex()
    if isinstance(o, (set, frozenset)):
        return sorted(o)
    if isinstance(o, tuple):
        return list(o)
    raise TypeError(f"not JSON-able: {type(o)}")


def digest(x) -> str:
    if not isinstance(x, (bytes, str)):
        x = canon(x)
    if isinstance(x, str):
        x = x.encode()
    return hashlib.sha256(x).hexdigest()


def jnorm(x):
    """Normalise to what a JSON round trip would give (tuples -> lists ...)."""
    return json.loads(json.dumps(x))


class EventLog:
    """Per-run event log.  Never draws random numbers, never reads a clock."""

    def __init__(self):
        self._h = hashlib.sha256()
        self.n = 0
        self.tail = []  # last few events, for humans

    def add(self, *fields):
        s = canon(fields)
        self._h.update(s.encode())
        self._h.update(b"\n")
        self.n += 1
        self.tail.append(s if len(s) < 300 else s[:300] + "...")
        if len(self.tail) > 12:
            self.tail.pop(0)

    def hexdigest(self):
        return "sha256:" + self._h.hexdigest()


class Session:
    """Base class of per-property sessions."""

    def __init__(self, spec, cfg):
        self.spec = spec
        self.cfg = cfg
        self.log = EventLog()
        self.stats = Counter()  # counters incl. faults fired and reach probes
        self.sigs = set()  # distinct abstract transition signatures (non-trivial steps)
        self.step = -1

    # -- to be provided by subclasses
    def apply(self, op):
        raise NotImplementedError

    def epilogue(self):
        pass

    def close(self):
        pass

    # -- helpers
    def probe(self, name, n=1):
        self.stats["probe." + name] += n

    def fault_fired(self, kind, n=1):
        self.stats["fault." + kind] += n

    def transition(self, *sig):
        self.sigs.add(canon(sig))


class RunResult:
    __slots__ = (
        "prop", "seed", "cfg", "spec", "ops", "event_digest", "n_events", "stats", "sigs",
        "violation", "violation_step", "tail",
    )

    def __init__(self, **kw):
        for k in self.__slots__:
            setattr(self, k, kw.get(k))

    @property
    def signature(self):
        if self.violation is None:
            return None
        s = {"property": self.prop}
        s.update(self.violation.sig)
        return s


def execute(sim, seed, cfg, spec, ops=None, rng=None):
    """Run one session.

    ops is None  -> generate mode: ops are drawn step by step from rng (the generator may
                    look at the live session) and recorded before they are executed.
    ops is a list-> replay mode: pure function of (cfg, spec, ops, code under test).
    """
    from . import env

    env.reset_globals()
    sess = sim.session(spec, cfg)
    recorded = []
    violation = None
    vstep = None
    try:
        i = 0
        while True:
            if ops is None:
                if i >= cfg["n_ops"]:
                    break
                op = sim.gen_op(rng, cfg, sess)
                if op is None:
                    break
                op = jnorm(op)
            else:
                if i >= len(ops):
                    break
                op = ops[i]
            recorded.append(op)
            sess.step = i
            try:
                sess.apply(op)
            except Violation as v:
                violation = v
                vstep = i
                v.sig.setdefault("op", op.get("op"))
                break
            i += 1
        if violation is None:
            sess.step = len(recorded)
            try:
                sess.epilogue()
            except Violation as v:
                violation = v
                vstep = len(recorded)
                v.sig.setdefault("op", "epilogue")
    finally:
        try:
            sess.close()
        finally:
            env.reset_globals()
    return RunResult(
        prop=sim.id, seed=seed, cfg=cfg, spec=spec, ops=recorded,
        event_digest=sess.log.hexdigest(), n_events=sess.log.n,
        stats=sess.stats, sigs=sess.sigs, violation=violation, violation_step=vstep,
        tail=list(sess.log.tail),
    )


def generate_and_run(sim, seed, tier):
    rng = random.Random(seed)
    cfg = jnorm(sim.new_config(rng, tier))
    spec = jnorm(sim.new_world_spec(rng, cfg))
    return execute(sim, seed, cfg, spec, ops=None, rng=rng)


def format_exc():
    return "".join(traceback.format_exception(*sys.exc_info()))
