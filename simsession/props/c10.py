"""C10 — operations on a Collection keep every child's pose relative to it (DESIGN.md §3 C10).

Level: exploration — seeded histories on shared trees; the relative-pose invariant is checked
after every step; rejected-call variants of every step are enumerated on a twin tree.
"""
from __future__ import annotations

import warnings

import numpy as np
from scipy.spatial.transform import Rotation as R

from .. import gen, pathops
from ..core import HarnessError, Session, Violation
from ..models.path_model import PathModel, pad_index_map, qangle, qconj, qmul, qrot, setter_index_map
from ..snapshot import first_diff, sdigest, snap_obj
from ..world import World
from .c08 import attr_of
from .c09 import anchor_class, simplify_path_op, start_class

ID = "C10"
LEVEL = "exploration"
TOL = 1e-9
GUARD_DIST = 1.5


def descendants(c):
    out = []
    for ch in getattr(c, "_children", []) or []:
        out.append(ch)
        out.extend(descendants(ch))
    return out


def rel_pose(child, parent):
    """pose of child in parent's frame at every path index: (P_rel (N,3), Q_rel (N,4))"""
    Pp, Qp = parent._position, pathops.quats_of(parent)
    Pc, Qc = child._position, pathops.quats_of(child)
    n = len(Pp)
    P = np.empty((n, 3))
    Q = np.empty((n, 4))
    for i in range(n):
        qi = qconj(Qp[i])
        P[i] = qrot(qi, Pc[i] - Pp[i])
        Q[i] = qmul(qi, Qc[i])
    return P, Q


class C10Session(Session):
    def __init__(self, spec, cfg):
        super().__init__(spec, cfg)
        self.world = World(spec)
        self.twin = World(spec)
        self.models = [PathModel(o._position, pathops.quats_of(o)) for o in self.world.objs]

    def _sync_twin(self):
        for a, b in zip(self.world.objs, self.twin.objs):
            pathops.exact_pose_copy(a, b)

    def _snap_all(self, world):
        return [snap_obj(o, world.index, with_style=False) for o in world.objs]

    def _field(self, X):
        """field of X's sources at X's sensors, or None if the clause is not applicable / guarded out"""
        import magpylib as magpy

        srcs, sens = X.sources_all, X.sensors_all
        if not srcs or not sens:
            return None
        for s in srcs:
            for t in sens:
                d = np.linalg.norm(s._position - t._position, axis=1).min()
                if d < GUARD_DIST:
                    self.stats["field_clause_guarded_out"] += 1
                    return None
        with warnings.catch_warnings():
            warnings.simplefilter("ignore")
            return magpy.getB(list(srcs), list(sens), squeeze=False)

    def apply(self, op):
        w = self.world
        i = op["o"] % len(w.objs)
        X = w.objs[i]
        N = len(X._position)
        is_coll = hasattr(X, "_children")
        desc = descendants(X) if is_coll else []
        sub = {id(X)} | {id(d) for d in desc}
        # precondition of the property: members share the collection's path length
        if any(len(d._position) != N for d in desc):
            raise HarnessError("generator broke the precondition: subtree path lengths differ")
        depth = 0
        p = X._parent
        while p is not None:
            depth += 1
            p = p._parent
        # tokens {"posof": j}: live views of another tree member's path for the real call, values for the model
        from .c09 import _plain

        mop = pathops.materialise(op, lambda j: _plain(self.models[j % len(self.models)]))
        rop = pathops.materialise(op, lambda j: w[j].position)
        if rop is not op:
            self.probe("input_aliases_another_members_path")
        # 1. rejected variants on the twin tree: the WHOLE tree must stay bitwise unchanged
        if self.cfg.get("rejects", True) and op["op"] != "reset_path":
            for vop0 in pathops.reject_variants(op):
                self._sync_twin()
                vop = pathops.materialise(vop0, lambda j: self.twin[j].position)
                pre = self._snap_all(self.twin)
                out = pathops.exec_path_op(self.twin.objs[i], vop)
                self.stats["variants"] += 1
                kind = vop["bad"]["kind"]
                post = self._snap_all(self.twin)
                self.log.add("rej", self.step, kind, out, sdigest(post))
                if out == "ok":
                    self.stats["reject_variant_accepted"] += 1
                    continue
                self.fault_fired("reject:" + kind)
                self.transition(op["op"], op.get("form"), "reject", kind, out, is_coll, min(len(desc), 3))
                if post != pre:
                    path = first_diff(pre, post)
                    raise Violation("rejected_call_changed_tree",
                                    f"{op['op']} on object {i} with invalid {vop['bad']['field']} ({kind}) raised "
                                    f"{out} but changed {path}", op=op["op"], form=op.get("form"),
                                    fault="reject:" + kind, attr=attr_of(path))
        # 2. the op on the main world
        before_rel = [(w.index(d), rel_pose(d, X)) for d in desc]
        outside = [(j, snap_obj(o, w.index, with_style=False)) for j, o in enumerate(w.objs) if id(o) not in sub]
        check_field = is_coll and self.cfg.get("field_every", 0) and (self.step % self.cfg["field_every"] == 0)
        B0 = self._field(X) if check_field else None
        out = pathops.exec_path_op(X, rop)
        self.stats["ops"] += 1
        self.stats["op." + op["op"] + (".coll" if is_coll else ".leaf")] += 1
        self.log.add("op", self.step, op["op"], op.get("form"), i, out, sdigest(self._snap_all(w)))
        if out != "ok":
            raise Violation("valid_call_rejected", f"{op['op']} {op.get('form')} on object {i} raised {out}",
                            op=op["op"], form=op.get("form"), outcome=out)
        res = pathops.apply_to_model(self.models[i], mop)
        Nn = len(self.models[i])
        if res[0] == "pad":
            imap = pad_index_map(N, res[1], res[2])
        elif res[0] == "set":
            imap = setter_index_map(N, Nn)
        else:  # reset_path: position=(0,0,0) then orientation=None
            imap = [N - 1]
        # 2a. outside of the operated subtree nothing changes (also: a child alone changes only itself)
        for j, s in outside:
            now = snap_obj(w.objs[j], w.index, with_style=False)
            if now != s:
                raise Violation("outside_subtree_changed",
                                f"object {j} changed ({first_diff(s, now)}) by {op['op']} on object {i}",
                                op=op["op"], form=op.get("form"), target="collection" if is_coll else "leaf",
                                attr=attr_of(first_diff(s, now)))
        # 2b. the collection frame itself follows the documented path semantics
        d = self.models[i].compare(X._position, pathops.quats_of(X), TOL)
        if d:
            raise Violation("collection_frame_model", d, op=op["op"], form=op.get("form"),
                            target="collection" if is_coll else "leaf")
        # 2c. every descendant keeps its pose relative to X at every path index
        for j, (P0, Q0) in before_rel:
            dobj = w.objs[j]
            if len(dobj._position) != len(X._position) or len(dobj._orientation) != len(X._position):
                raise Violation("descendant_path_length",
                                f"descendant {j} has path length {len(dobj._position)} / {len(dobj._orientation)}, "
                                f"collection {len(X._position)}", op=op["op"], form=op.get("form"))
            P1, Q1 = rel_pose(dobj, X)
            Pe, Qe = P0[imap], Q0[imap]
            e = float(np.abs(P1 - Pe).max())
            if not e <= TOL:
                k = int(np.argmax(np.abs(P1 - Pe).max(axis=1)))
                raise Violation("relative_position_changed",
                                f"descendant {j}: relative position differs by {e:.3g} at path index {k} after "
                                f"{op['op']} {op.get('form')} on collection {i} (depth {depth})",
                                op=op["op"], form=op.get("form"))
            for k in range(len(Q1)):
                ang = qangle(Q1[k], Qe[k])
                if not ang <= TOL:
                    raise Violation("relative_orientation_changed",
                                    f"descendant {j}: relative orientation differs by {ang:.3g} rad at path index "
                                    f"{k} after {op['op']} {op.get('form')} on collection {i}",
                                    op=op["op"], form=op.get("form"))
            # keep the descendant's own model in step (it was transformed together with X)
            self.models[j] = PathModel(dobj._position, pathops.quats_of(dobj))
        # 2d. derived clause: the field of the collection seen by its own sensors is invariant
        if B0 is not None:
            B1 = self._field(X)
            if B1 is not None:
                Be = B0[:, imap]
                self.probe("field_clause_checked")
                scale = float(np.abs(Be).max()) or 1.0
                if B1.shape != Be.shape or not np.allclose(B1, Be, rtol=1e-7, atol=1e-10 * scale):
                    err = float(np.abs(B1 - Be).max()) if B1.shape == Be.shape else float("nan")
                    raise Violation("own_field_changed",
                                    f"getB of collection {i} at its own sensors changed by {err:.3g} (scale "
                                    f"{scale:.3g}) after {op['op']} {op.get('form')}", op=op["op"], form=op.get("form"))
        # probes and transition signature
        if is_coll and desc:
            if depth >= 1:
                self.probe("op_on_inner_collection")
            if depth + _height(X) >= 2 and op["op"] == "rotate" and op.get("anchor") is None:
                self.probe("rotate_anchor_none_on_nested_tree")
            if res[0] == "pad" and res[1]:
                self.probe("pad_before_on_tree")
            if res[0] == "pad" and res[2]:
                self.probe("pad_behind_on_tree")
            if res[0] == "set" and Nn > N:
                self.probe("setter_pads_tree")
            if res[0] == "set" and Nn < N:
                self.probe("setter_slices_tree")
        nvec = pathops.op_nvec(op)
        self.transition(op["op"], op.get("form"), "coll" if is_coll else "leaf", depth, min(len(desc), 3),
                        "scalar" if nvec == 0 else "vector",
                        start_class(op.get("start", "auto"), N) if "start" in op else None,
                        res[0] if res[0] != "pad" else f"pad{int(bool(res[1]))}{int(bool(res[2]))}",
                        anchor_class(op.get("anchor"), max(nvec, 1)) if op["op"] == "rotate" else None)

    def epilogue(self):
        w = self.world
        for i, o in enumerate(w.objs):
            if hasattr(o, "_children") and o._parent is None:
                op = {"op": "move", "o": i, "d": [0.25, -0.125, 0.5], "start": "auto"}
                self.step += 1
                self.apply(op)
                break


def _height(c):
    h = 0
    for ch in getattr(c, "_children", []) or []:
        if hasattr(ch, "_children"):
            h = max(h, 1 + _height(ch))
        else:
            h = max(h, 1)
    return h


class Sim:
    id = ID
    level = LEVEL
    runs = {"quick": 4000}
    budget = {"thorough": 600}
    chunk = {"quick": 50, "thorough": 50}
    rule = ("One evaluation = one seeded session: a forest of 1-2 root collections, nesting depth <= 3, 2-7 leaves "
            "(sensors, dipoles, spheres, cuboids), all members sharing their collection's path length (1-4), "
            "and a history of 3-12 (quick) / 3-30 (thorough) ops: any path op (move, rotate in 7 "
            "parametrisations, position=, orientation=, reset_path; scalar/vector input; start beyond both "
            "ends; anchors none/0/single/per-step) on a root collection, length-preserving ones on inner "
            "collections and on single leaves. After every step: each descendant's pose in the operated "
            "collection's frame equals the pose before, edge-padded/end-sliced exactly like the collection's "
            "own path (1e-9); everything outside the operated subtree bitwise unchanged; the collection frame "
            "matches the path model; every k-th step getB of the subtree's sources at its own sensors is "
            "unchanged (rtol 1e-7, only when sensors stay >= 1.5 away from sources). Invalid-argument variants "
            "of every op run on a twin tree, which must stay bitwise unchanged when they are rejected. "
            "distinct_nontrivial counts distinct (op, form, target kind, depth, subtree size, scalar|vector, "
            "start class, padding class, anchor class) tuples.")
    real_components = ["magpylib (all of it, from the working tree under test)", "numpy", "scipy"]
    stub_components = ["invalid arguments injected one at a time into otherwise valid operations"]
    assumptions = ["precondition of the property maintained by the generator: members share the collection's "
                   "path length (length-changing ops only on root collections)",
                   "field clause skipped when a sensor is closer than 1.5 to a source (sources have extent <= 1): "
                   "near a magnet surface a 1e-16 perturbation may legitimately flip inside/outside",
                   "tolerances: poses 1e-9, field rtol 1e-7"]

    def new_config(self, rng, tier):
        thorough = tier == "thorough"
        return {
            "tier": tier,
            "n_ops": rng.randint(3, 30 if thorough else 12),
            "n_roots": rng.choice([1, 1, 2]),
            "depth": rng.choice([1, 2, 2, 3]),
            "n_leaf": rng.randint(2, 7),
            "L": rng.choice([1, 1, 2, 3, 4]),
            "forms": [f for f in pathops.FORMS if rng.random() < 0.7] or ["rotation"],
            "rejects": rng.random() < 0.6,
            "field_every": (1 if thorough else rng.choice([0, 2, 4])),
            "p_leaf_op": rng.choice([0.1, 0.3]),
            "p_inner_op": rng.choice([0.2, 0.4, 0.6]),
            "alias": rng.random() < 0.7,
            "iadd": rng.random() < 0.5,
        }

    def new_world_spec(self, rng, cfg):
        L = cfg["L"]
        objs = []

        def leaf():
            cls = rng.choice(["Sensor", "Sensor", "Dipole", "Sphere", "Cuboid"])
            s = {"cls": cls}
            if cls == "Sensor":
                s["kw"] = {} if rng.random() < 0.7 else {"handedness": "left"}
                # sensors live in a shell away from the sources
                pos = []
                for _ in range(L):
                    v = gen.vec3(rng, -1, 1)
                    ax = rng.randrange(3)
                    v[ax] = rng.choice([-1, 1]) * gen.g8(rng, 2.75, 4.0)
                    pos.append(v)
                s["pos"] = pos
            else:
                s["kw"] = {"Dipole": {"moment": gen.nz_vec3(rng)},
                           "Sphere": {"polarization": gen.nz_vec3(rng), "diameter": gen.g8(rng, 0.25, 1.0)},
                           "Cuboid": {"polarization": gen.nz_vec3(rng),
                                      "dimension": [gen.g8(rng, 0.25, 1.0) for _ in range(3)]}}[cls]
                s["pos"] = gen.path(rng, L, -1, 1)
            s["rot"] = gen.rotvecs(rng, L)
            objs.append(s)
            return len(objs) - 1

        def coll(depth):
            s = {"cls": "Collection", "kw": {}, "pos": gen.path(rng, L, -2, 2), "rot": gen.rotvecs(rng, L)}
            objs.append(s)
            me = len(objs) - 1
            ch = []
            k = rng.randint(1, 3)
            for _ in range(k):
                if depth > 1 and rng.random() < 0.5:
                    ch.append(coll(depth - 1))
                else:
                    ch.append(leaf())
            s["children"] = ch
            return me

        for _ in range(cfg["n_roots"]):
            coll(cfg["depth"])
        while sum(1 for o in objs if o["cls"] != "Collection") < 2:
            leaf()
        if len(objs) > 12:
            objs = objs  # bounded by construction (<= 2 roots x 3^3); fine
        return {"objects": objs}

    def session(self, spec, cfg):
        return C10Session(spec, cfg)

    def gen_op(self, rng, cfg, sess):
        op = self._gen_op(rng, cfg, sess)
        w = sess.world
        if cfg.get("iadd") and rng.random() < 0.08:
            # `obj.position += d` on any member of the forest (length preserving)
            return {"op": "iadd_position", "o": op["o"], "d": gen.vec3(rng)}
        if cfg.get("alias", True) and rng.random() < 0.3 and "as_array" not in op and op["op"] != "reset_path":
            op["as_array"] = True
        if cfg.get("alias", True) and rng.random() < 0.12 and op["op"] in ("set_position", "rotate", "move"):
            # an input that is a live view of another member's path (same tree => same path length)
            o = op["o"] % len(w.objs)
            root = w.objs[o]
            while root._parent is not None:
                root = root._parent
            members = [w.index(x) for x in [root] + descendants(root)]
            members = [m for m in members if m is not None and m != o]
            if members:
                j = rng.choice(members)
                N = len(w.objs[o]._position)
                tok = pathops.posof_token(rng, j, N)
                if tok.get("wrap") in ("list", "tuple") and op["op"] != "set_position" and \
                        op.get("start") not in (0, -N):
                    tok.pop("wrap")  # a wrapped view is vector input: it must not change the path length here
                if op["op"] == "set_position":
                    op["v"] = tok
                elif op["op"] == "rotate" and (N == 1 or op.get("start") in (0, -N)):
                    op["anchor"] = tok
                elif op["op"] == "move" and (N == 1 or op.get("start") in (0, -N)):
                    op["d"] = tok
        return op

    def _gen_op(self, rng, cfg, sess):
        w = sess.world
        colls = w.colls()
        roots = [i for i in colls if w.objs[i]._parent is None]
        inner = [i for i in colls if w.objs[i]._parent is not None]
        leaves = [i for i in w.leaves() if w.objs[i]._parent is not None]
        r = rng.random()
        if leaves and r < cfg["p_leaf_op"]:
            o = rng.choice(leaves)
            return pathops.gen_fit_op(rng, o, len(w.objs[o]._position), forms=cfg["forms"], alias=cfg.get("alias", True))
        if inner and rng.random() < cfg["p_inner_op"]:
            o = rng.choice(inner)
            N = len(w.objs[o]._position)
            if N == 1 and rng.random() < 0.1:
                return {"op": "reset_path", "o": o}
            return pathops.gen_fit_op(rng, o, N, forms=cfg["forms"], alias=cfg.get("alias", True))
        o = rng.choice(roots)
        N = len(w.objs[o]._position)
        kinds = ["move", "rotate", "rotate", "setter"] + (["reset"] if rng.random() < 0.1 else [])
        if N > 12:
            kinds = ["setter", "reset"]
        return pathops.gen_path_op(rng, o, N, kinds=kinds, forms=cfg["forms"], wild=True, alias=cfg.get("alias", True))

    def simplify_op(self, op):
        yield from simplify_path_op(op)

    def simplify_spec(self, spec, ops):
        objs = spec["objects"]
        for i, o in enumerate(objs):
            if o.get("rot") is not None:
                c = list(objs)
                c[i] = dict(o, rot=[[0.0, 0.0, 0.0]] * len(o["rot"]))
                if c[i] != o:
                    yield {"objects": c}
            if o.get("pos") is not None:
                c = list(objs)
                z = [[0.0, 0.0, 0.0] if o["cls"] != "Sensor" else [3.0, 0.0, 0.0]] * len(o["pos"])
                c[i] = dict(o, pos=z)
                if c[i] != o:
                    yield {"objects": c}
            ch = o.get("children")
            if ch and len(ch) > 1:
                for j in range(len(ch)):
                    c = list(objs)
                    c[i] = dict(o, children=ch[:j] + ch[j + 1:])
                    yield {"objects": c}

    def simplify_cfg(self, cfg):
        if cfg.get("rejects"):
            yield dict(cfg, rejects=False)
        if cfg.get("field_every"):
            yield dict(cfg, field_every=0)
