"""C18 — copy() yields an equal, fully independent, parentless object (DESIGN.md §3 C18).

Level: exploration — copy-then-mutate histories with twin-side independence (bitwise
snapshots of every other group of objects after every mutation); failing copies enumerated
at every copy.
"""
from __future__ import annotations

import contextlib
import copy
import functools
import io
import warnings

import numpy as np
from scipy.spatial.transform import Rotation

from .. import gen, pathops
from ..core import HarnessError, Session, Violation, canon
from ..snapshot import enc, first_diff, sdigest, snap_obj
from ..world import Opaque, World, build_object, rot_from
from .c08 import attr_of, enc_result
from .c11 import forest_errors

ID = "C18"
LEVEL = "exploration"

MAGNETS = ["Cuboid", "Cylinder", "CylinderSegment", "Sphere", "Tetrahedron", "TriangularMesh"]
STYLE_COMMON = [("color", ["red", "blue", "#00ff00"]), ("opacity", [0.25, 0.5, 1.0]),
                ("label", ["a", "b_01", "xyz", "", "x_", "7"]),
                ("path_line_width", [1, 2, 3]), ("path_marker_size", [2, 4]), ("description_text", ["x", "y"]),
                ("description_show", [True, False]), ("legend_show", [True, False]),
                ("model3d_showdefault", [True, False]), ("path_frames", [[0, 1], 2]), ("path_show", [True, False])]
STYLE_BY_CLASS = {
    **{c: [("magnetization_show", [True, False]), ("magnetization_color_north", ["red", "magenta"]),
           ("magnetization_mode", ["arrow", "color"]), ("magnetization_arrow_width", [1, 3])]
       for c in MAGNETS + ["Triangle"]},
    "Circle": [("arrow_size", [1, 2]), ("arrow_width", [1, 2]), ("line_width", [1, 3])],
    "Polyline": [("arrow_size", [1, 2]), ("arrow_width", [1, 2]), ("line_width", [1, 3])],
    "Dipole": [("size", [1, 2]), ("pivot", ["tail", "middle", "tip"])],
    "Sensor": [("size", [1, 2]), ("pixel_size", [1, 2]), ("arrows_x_color", ["red", "blue"]),
               ("arrows_z_show", [True, False])],
}
STYLE_BY_CLASS["Triangle"] = STYLE_BY_CLASS["Triangle"] + [("orientation_size", [1, 2])]
STYLE_BY_CLASS["TriangularMesh"] = STYLE_BY_CLASS["TriangularMesh"] + [("orientation_size", [1, 2]),
                                                                      ("mesh_grid_show", [True, False])]

POSE_COUPLED = {"position": {"_position", "_orientation"}, "orientation": {"_position", "_orientation"}}
ATTR_COUPLED = {
    "polarization": {"_polarization", "_magnetization"}, "magnetization": {"_polarization", "_magnetization"},
    "dimension": {"_dimension"}, "diameter": {"_diameter"}, "current": {"_current"}, "moment": {"_moment"},
    "pixel": {"_pixel"}, "handedness": {"_handedness"},
    "vertices": {"_vertices"},
}


def style_leaves(cls):
    return STYLE_COMMON + STYLE_BY_CLASS.get(cls, [])


def subtree(obj):
    out = [obj]
    for ch in getattr(obj, "_children", []) or []:
        out.extend(subtree(ch))
    return out


def _nest_many(items):
    out = {}
    for leaf, v in items:
        d = out
        parts = leaf.split("_")
        for p in parts[:-1]:
            d = d.setdefault(p, {})
        d[parts[-1]] = v
    return out


def nest(magic_key, value):
    d = value
    for k in reversed(magic_key.split("_")):
        d = {k: d}
    return d


def mutable_ids(obj, acc=None, depth=0):
    """ids of all mutable things reachable from one object's attributes (not following object refs)"""
    from magpylib._src.defaults.defaults_utility import MagicProperties

    if acc is None:
        acc = {}

    def walk(x, d):
        if d > 12:
            return
        if isinstance(x, np.ndarray):
            acc.setdefault(id(x), x)
            base = x.base
            if isinstance(base, np.ndarray):
                acc.setdefault(id(base), base)
        elif isinstance(x, Rotation):
            acc.setdefault(id(x), x)
        elif isinstance(x, (list, dict, set)):
            acc.setdefault(id(x), x)
            for v in (x.values() if isinstance(x, dict) else x):
                if not (hasattr(v, "_position") and hasattr(v, "_parent")):
                    walk(v, d + 1)
        elif isinstance(x, tuple):
            for v in x:
                walk(v, d + 1)
        elif isinstance(x, MagicProperties):
            acc.setdefault(id(x), x)
            for v in vars(x).values():
                walk(v, d + 1)
        elif isinstance(x, Opaque):
            acc.setdefault(id(x), x)
        elif isinstance(x, functools.partial):
            acc.setdefault(id(x), x)
            walk(list(x.args), d + 1)
            walk(x.keywords, d + 1)

    for k, v in vars(obj).items():
        if k == "_parent":
            continue
        walk(v, 0)
    return acc


class C18Session(Session):
    def __init__(self, spec, cfg):
        super().__init__(spec, cfg)
        self.world = World(spec)
        for i, ospec in enumerate(spec["objects"]):
            for tr in ospec.get("traces", []) or []:
                self._add_trace(self.world.objs[i], tr)
        self.group = [0] * len(self.world.objs)  # group id per pool object
        self.n_groups = 1
        self.snaps = {}
        self._resnap_all()

    # -- groups and snapshots ----------------------------------------------------
    def _snap_group(self, g):
        w = self.world
        return [snap_obj(o, w.index) for i, o in enumerate(w.objs) if self.group[i] == g]

    def _resnap_all(self):
        for g in range(self.n_groups):
            self.snaps[g] = self._snap_group(g)

    def _check_others(self, g, what, op):
        for h in range(self.n_groups):
            if h == g:
                continue
            now = self._snap_group(h)
            if now != self.snaps[h]:
                path = first_diff(self.snaps[h], now)
                raise Violation("other_side_changed",
                                f"{what} on an object of group {g} changed group {h}: {path}",
                                op=op["op"], mutation=op.get("kind") or op.get("form") or op["op"],
                                attr=attr_of(path))
        self.snaps[g] = self._snap_group(g)

    @staticmethod
    def _add_trace(obj, tr):
        obj.style.model3d.add_trace(backend="generic", constructor="Scatter3d",
                                    kwargs={"x": list(tr["x"]), "y": [0, 1], "z": [0, 0], "mode": "lines"})

    # -- the copy op ---------------------------------------------------------------
    def _copy_kwargs(self, kw, obj=None):
        out = {}
        forms = getattr(self, "_kw_form", None) or {}
        for k, v in kw.items():
            if forms.get(k) == "attrof":
                out[k] = getattr(obj, k)  # what the original's own getter hands out: copy(pixel=orig.pixel)
                continue
            if forms.get(k) == "nd":
                out[k] = np.array(v, dtype=float)  # a float64 array the caller keeps (and reuses afterwards)
                self._caller_arrays.append(out[k])
                continue
            if isinstance(v, dict) and "$substyle" in v:
                # a style OBJECT taken from the original (documented input: "dict or `Path` object")
                out[k] = getattr(obj.style, v["$substyle"])
                continue
            if k == "orientation":
                out[k] = rot_from(v)
            elif k == "parent":
                out[k] = "not a collection" if v == "$junk" else self.world[v]
            elif k in ("children", "sources", "sensors", "collections"):
                out[k] = ["not an object" if j == "$junk" else self.world[j] for j in v]
            else:
                out[k] = v
        return out

    def _do_copy(self, obj, kw, warn_error=False):
        with warnings.catch_warnings(), contextlib.redirect_stdout(io.StringIO()):
            warnings.simplefilter("error" if warn_error else "ignore")
            try:
                return "ok", obj.copy(**self._copy_kwargs(kw, obj))
            except Exception as e:
                return "raised:" + type(e).__name__, None

    def _world_snap(self):
        w = self.world
        return [snap_obj(o, w.index) for o in w.objs]

    def _probe_field(self, obj):
        import magpylib as magpy

        with warnings.catch_warnings():
            warnings.simplefilter("ignore")
            try:
                if type(obj).__name__ == "Sensor":
                    return "ok", enc_result(obj.getB(magpy.misc.Dipole(moment=(1, 2, 3), position=(0.3, 0.2, 5.1))))
                return "ok", enc_result(magpy.getB(obj, [[0.3, 0.2, 5.1], [4.9, 0.1, -0.2]]))
            except Exception as e:
                return "raised:" + type(e).__name__, None

    def _failing_copies(self, op, obj):
        w = self.world
        for var in op.get("fail_variants", []):
            attached = None
            if var["kind"] == "uncopyable":
                holder = w[var["ref"]]
                if var.get("where") == "trace" and getattr(holder, "_style", None) is not None \
                        and holder._style.model3d.data:
                    holder._style.model3d.data[0].kwargs["handle"] = Opaque("t")
                    attached = ("trace", holder)
                else:
                    holder._verif_handle = Opaque("h")
                    attached = ("attr", holder)
            try:
                pre = self._world_snap()
                kw = dict(op.get("kw", []))
                if var["kind"] == "bad_kwarg":
                    items = list(kw.items())
                    items.insert(min(var.get("pos", 0), len(items)), (var["key"], var["value"]))
                    kw = dict(items)
                if var["kind"] == "tree_then_bad":
                    # copy(children=[x], ..., <rejected keyword>): x must not have left its collection
                    kw = dict([(var["tree_key"], var["members"])] + list(kw.items()) + [(var["key"], var["value"])])
                    self.probe("failing_copy_with_tree_keyword")
                out, new = self._do_copy(obj, kw, warn_error=var["kind"] == "warn_error")
                if out == "ok" and new is not None and new._parent is not None:
                    if "parent" not in kw:
                        raise Violation("copy_has_parent", "copy.parent is not None", op="copy")
                    try:
                        new.parent = None  # an accepted copy(parent=coll) legitimately hangs under coll: detach it
                    except Exception as e:
                        raise Violation("copy_has_parent", f"copy(parent=coll) cannot be detached again: "
                                        f"{type(e).__name__}", op="copy") from None
                post = self._world_snap()
            finally:
                if attached:
                    if attached[0] == "trace":
                        del attached[1]._style.model3d.data[0].kwargs["handle"]
                    else:
                        del attached[1]._verif_handle
            self.stats["variants"] += 1
            label = var["kind"] + (":" + var.get("name", "") if var.get("name") else "")
            self.log.add("fail", self.step, canon(var), out, sdigest(post))
            if out != "ok":
                self.fault_fired(label)
                if obj._parent is not None or pre[w.index(obj)].get("_parent") is not None:
                    self.probe("copy_failed_on_parented_object")
            self.transition("copy", type(obj).__name__, "fail", label, out.split(":")[0])
            if post != pre:
                path = first_diff(pre, post)
                raise Violation("original_changed_by_failed_copy" if out != "ok" else "original_changed_by_copy",
                                f"copy [{label}] {out} changed {path}", op="copy", fault=label, attr=attr_of(path))

    def _copy(self, op):
        w = self.world
        i = op["o"] % len(w.objs)
        obj = w.objs[i]
        cls = type(obj).__name__
        # failing copies first: the original world must stay bitwise what it was
        self._failing_copies(op, obj)
        kw = dict(op.get("kw", []))  # ordered list of [key, value] pairs: keyword order matters
        self._kw_form = dict(op.get("kw_form", {}))
        self._caller_arrays = []
        for k, form in list(self._kw_form.items()):
            cur = getattr(obj, k, None) if form == "attrof" else None
            if form == "attrof" and (k not in kw or cur is None):
                del self._kw_form[k]
                kw.pop(k, None) if cur is None else None
            elif form == "attrof":
                kw[k] = np.asarray(cur, dtype=float).tolist()  # the value as it is now (replay after shrinking)
        pre = self._world_snap()
        f0 = self._probe_field(obj)
        pre = self._world_snap()
        style_state = ("init" if getattr(obj, "_style", None) is not None else
                       "lazy" if getattr(obj, "_style_kwargs", None) else "none")
        out, new = self._do_copy(obj, kw)
        self._kw_form = {}
        if out == "ok" and self._caller_arrays:
            # the caller goes on using its arrays: the copy must not follow
            before = snap_obj(new, lambda x: None, with_style=False)
            for a in self._caller_arrays:
                a += 7.0
            if snap_obj(new, lambda x: None, with_style=False) != before:
                raise Violation("copy_keeps_callers_array", "an array given as a copy() keyword is kept by reference: "
                                "changing it afterwards changed the copy", op="copy",
                                attr=sorted(k for k, f in (op.get("kw_form") or {}).items() if f == "nd")[0])
            self.probe("caller_array_scribbled_after_copy")
        if out == "ok" and any(f == "attrof" for f in (op.get("kw_form") or {}).values()):
            self.probe("copy_with_originals_own_attribute_value")
        self.stats["ops"] += 1
        self.stats["copies"] += 1
        post = self._world_snap()
        self.log.add("copy", self.step, cls, sorted(kw), out, sdigest(post))
        pidx = kw.get("parent")
        pidx = pidx % len(w.objs) if isinstance(pidx, int) else None
        if pidx is not None and out == "ok":
            # copy(parent=coll): the copy becomes the last child of coll - the only allowed change
            par = w.objs[pidx]
            if new._parent is not par or not par._children or par._children[-1] is not new:
                raise Violation("override_not_applied", "copy(parent=coll): the copy is not the last child of coll",
                                op="copy", attr="parent")
            self.probe("copy_with_parent_kwarg")
            try:
                new.parent = None  # detach again (public API): the original world must be back to what it was
            except Exception as e:
                raise Violation("copy_has_parent", f"copy(parent=coll) cannot be detached again: {type(e).__name__}",
                                op="copy") from None
            post = self._world_snap()
        if post != pre:
            path = first_diff(pre, post)
            raise Violation("original_changed_by_copy", f"copy {out} changed the original world: {path}", op="copy",
                            attr=attr_of(path))
        if out != "ok" and any(f == "attrof" for f in (op.get("kw_form") or {}).values()):
            # the original's own attribute value was given back to it: an earlier in-place edit through a getter
            # (mutation `inplace_getter`) may have made that value invalid (negative radius ...), the setter of
            # the copy then rightly rejects it.  The world is unchanged (checked above): nothing to flag.
            self.probe("copy_with_own_value_rejected")
            return
        if out != "ok":
            raise Violation("valid_copy_rejected", f"{cls}.copy({sorted(kw)}) {out}", op="copy", outcome=out)
        # register the copied subtree as a new group
        g = self.n_groups
        self.n_groups += 1
        first = w.register_tree(new)
        self.group.extend([g] * (len(w.objs) - len(self.group)))
        orig_sub, copy_sub = subtree(obj), subtree(new)
        if obj._parent is not None:
            self.probe("copy_of_parented_object")
        if hasattr(obj, "_children"):
            depth = _height(obj)
            self.probe("copy_of_collection")
            if depth >= 2:
                self.probe("copy_of_collection_depth>=2")
        if style_state == "lazy":
            self.probe("copy_with_lazy_style")
        # (a) class, (c) parent
        if type(new) is not type(obj):
            raise Violation("copy_class", f"{type(new).__name__} != {cls}", op="copy")
        if new._parent is not None or new.parent is not None:
            raise Violation("copy_has_parent", "copy.parent is not None", op="copy")
        if len(orig_sub) != len(copy_sub):
            raise Violation("copy_subtree_shape", f"{len(copy_sub)} objects in the copy, {len(orig_sub)} in the original",
                            op="copy")
        # (d) forest consistency over the whole world (copy subtree included) and disjointness
        errs = forest_errors(w)
        if errs:
            raise Violation("copy_forest_" + errs[0][0], errs[0][1], op="copy")
        orig_ids = {id(o) for k, o in enumerate(w.objs) if self.group[k] != g}
        for c in copy_sub:
            if id(c) in orig_ids:
                raise Violation("copy_shares_object", "an object of the copied subtree is an original object", op="copy")
            if c is not new and (c._parent is None or id(c._parent) in orig_ids):
                raise Violation("copy_subtree_parent_link", "child in the copy points outside the copy", op="copy")
        # (b) equality modulo label / overrides
        skip_root = set()
        pose_override = any(k in POSE_COUPLED for k in kw)
        for k in kw:
            skip_root |= POSE_COUPLED.get(k, set()) | ATTR_COUPLED.get(k, set())
        style_override = any(k.startswith("style") for k in kw)
        loc_o = {id(o): n for n, o in enumerate(orig_sub)}
        loc_c = {id(o): n for n, o in enumerate(copy_sub)}
        for n, (a, b) in enumerate(zip(orig_sub, copy_sub)):
            if type(a) is not type(b):
                raise Violation("copy_class", f"subtree member {n}: {type(b).__name__} != {type(a).__name__}", op="copy")
            sa = snap_obj(a, lambda x: loc_o.get(id(x), "out"))
            sb = snap_obj(b, lambda x: loc_c.get(id(x), "out"))
            for s in (sa, sb):
                if n == 0:
                    s.pop("_parent", None)
                    for k in skip_root:
                        s.pop(k, None)
                if n > 0 and pose_override:
                    s.pop("_position", None)
                    s.pop("_orientation", None)
                s["style"] = copy.deepcopy(s.get("style"))  # encodings may be shared with the snapshot cache
                _drop_label(s["style"])
                if n == 0 and style_override:
                    s.pop("style", None)  # compared leaf by leaf below
            if sa != sb:
                path = first_diff(sa, sb)
                raise Violation("copy_not_equal", f"subtree member {n} ({type(a).__name__}): {path} differs between "
                                f"original and copy", op="copy", attr=attr_of(path))
        # with style overrides: every style leaf that was NOT overridden still equals the original's
        if style_override:
            over = set()
            for k, v in kw.items():
                if k == "style" and isinstance(v, dict):
                    over |= set(_flatten_keys(v))
                elif k.startswith("style_"):
                    over.add(k[6:])
            fo = obj.style.as_dict(flatten=True, separator="_")
            fc = new.style.as_dict(flatten=True, separator="_")
            for leaf, val in fo.items():
                if leaf in ("label", "model3d_data") or leaf in over or any(leaf.startswith(o + "_") for o in over):
                    continue
                if any(o.startswith(leaf + "_") for o in over):
                    continue
                if _norm(fc.get(leaf, "<missing>")) != _norm(val):
                    raise Violation("copy_not_equal", f"style leaf {leaf} of the copy is {fc.get(leaf)!r}, original "
                                    f"{val!r} (not overridden by {sorted(over)})", op="copy", attr="style")
            self.probe("copy_with_style_override")
        # the label of the copy is the documented iteration of the original's label
        if "style_label" not in kw and "style" not in kw:
            lab0 = obj.style.label if getattr(obj, "_style", None) is not None else None
            if lab0:
                want = iterated_label(lab0)
                if new.style.label != want:
                    raise Violation("copy_label", f"copy of an object labelled {lab0!r} is labelled "
                                    f"{new.style.label!r}, documented iteration gives {want!r}", op="copy", attr="label")
                self.probe("copy_label_iterated")
        # overrides took effect on the copy
        pose_keys = [k for k in kw if k in POSE_COUPLED]
        exc_keys = [k for k in kw if k in ("polarization", "magnetization")]
        for k, v in kw.items():
            if k.startswith("style") or k == "parent":
                continue
            if k in POSE_COUPLED and k != pose_keys[-1]:
                continue  # a later pose override pads/slices this one (setter semantics, C09)
            if k in ("polarization", "magnetization") and k != exc_keys[-1]:
                continue  # J and M are two views of one excitation: the later keyword wins
            got = getattr(new, k)
            if (op.get("kw_form") or {}).get(k) == "attrof":
                # the original's own value was given: the copy shows the same as the original (if nothing later
                # in the keyword list is coupled to it), without any squeezing conventions in between
                a, b = np.asarray(got, dtype=float), np.asarray(getattr(obj, k), dtype=float)
                if a.shape != b.shape or not np.allclose(a, b, equal_nan=True):
                    raise Violation("override_not_applied", f"copy.{k} != the original's {k} that was given",
                                    op="copy", attr=k)
                continue
            if k == "orientation":
                qa, qb = np.atleast_2d(got.as_quat()), np.atleast_2d(rot_from(v).as_quat())
                ok = qa.shape == qb.shape and bool(np.all(np.minimum(np.abs(qa - qb).max(axis=1),
                                                                     np.abs(qa + qb).max(axis=1)) < 1e-12))
            elif isinstance(v, str):
                ok = got == v
            else:
                a, b = np.asarray(got, dtype=float), np.squeeze(np.asarray(v, dtype=float))
                ok = a.shape == b.shape and np.allclose(a, b, equal_nan=True)
            if not ok:
                raise Violation("override_not_applied", f"copy.{k} != override", op="copy", attr=k)
        sub_tops = {k[6:] for k, v in kw.items() if isinstance(v, dict) and "$substyle" in v}
        if isinstance(kw.get("style"), dict):
            got_all = new.style.as_dict(flatten=True, separator="_")
            tops_as_objects = {k[6:] for k, v in kw.items() if isinstance(v, dict) and "$substyle" in v}
            for leaf in _flatten_keys(kw["style"]):
                if "style_" + leaf in kw or leaf.split("_")[0] in tops_as_objects:
                    continue  # the same leaf also given as a keyword: the keyword is applied on top of the dict
                d = kw["style"]
                for part in leaf.split("_"):
                    d = d[part]
                if not _style_eq(got_all.get(leaf), d):
                    raise Violation("override_not_applied", f"copy.style.{leaf} = {got_all.get(leaf)!r}, override {d!r}",
                                    op="copy", attr="style")
        for k, v in kw.items():
            if k.startswith("style_") and not (isinstance(v, dict) and "$substyle" in v):
                leaf = k[6:]
                if leaf.split("_")[0] in sub_tops:
                    continue  # the whole sub-style is given as an object in the same call: order decides
                got = new.style.as_dict(flatten=True, separator="_").get(leaf)
                if not _style_eq(got, v):
                    raise Violation("override_not_applied", f"copy.style.{leaf} = {got!r}, override {v!r}",
                                    op="copy", attr="style")
        # (e) no shared mutable state
        mo = {}
        for k, o in enumerate(w.objs):
            if self.group[k] != g:
                mutable_ids(o, mo)
        mc = {}
        for c in copy_sub:
            mutable_ids(c, mc)
        shared = [k for k in mc if k in mo]  # walk order, not id order: deterministic
        if shared:
            x = mo[shared[0]]
            raise Violation("copy_shares_mutable_state", f"a {type(x).__name__} is shared between original and copy",
                            op="copy", attr=type(x).__name__)
        arrs_o = [a for a in mo.values() if isinstance(a, np.ndarray)]
        for a in mc.values():
            if isinstance(a, np.ndarray):
                for b in arrs_o:
                    if np.may_share_memory(a, b) and np.shares_memory(a, b):
                        raise Violation("copy_shares_mutable_state", "an ndarray of the copy shares memory with the "
                                        "original", op="copy", attr="ndarray")
        # (f) same field
        if not any(k in POSE_COUPLED or k in ATTR_COUPLED for k in kw):
            f1 = self._probe_field(new)
            if f0 != f1:
                raise Violation("copy_field_differs", f"getB of original {f0[0]} and copy {f1[0]} differ", op="copy")
        post2 = self._world_snap()[:len(pre)]
        if post2 != pre:
            path = first_diff(pre, post2)
            raise Violation("original_changed_by_copy", f"inspecting the copy changed the original: {path}", op="copy",
                            attr=attr_of(path))
        self._resnap_all()
        self.transition("copy", cls, obj._parent is not None, style_state, sorted(k.split("_")[0] for k in kw),
                        min(len(orig_sub), 4))

    # -- mutations -------------------------------------------------------------------
    def _mutate(self, op):
        w = self.world
        i = op["o"] % len(w.objs)
        obj = w.objs[i]
        g = self.group[i]
        kind = op["kind"]
        out = "ok"
        try:
            with warnings.catch_warnings(), contextlib.redirect_stdout(io.StringIO()):
                warnings.simplefilter("ignore")
                if kind == "path":
                    out = pathops.exec_path_op(obj, op["pop"])
                elif kind == "set_attr":
                    setattr(obj, op["name"], op["value"])
                elif kind == "style_update":
                    obj.style.update(**{op["leaf"]: op["value"]})
                elif kind == "style_update_dict":
                    obj.style.update(nest(op["leaf"], op["value"]))
                elif kind == "style_assign_dict":
                    obj.style = nest(op["leaf"], op["value"])
                elif kind == "style_attr":
                    tgt = obj.style
                    parts = op["leaf"].split("_")
                    for p in parts[:-1]:
                        tgt = getattr(tgt, p)
                    setattr(tgt, parts[-1], op["value"])
                elif kind == "add_trace":
                    self._add_trace(obj, {"x": op["x"]})
                elif kind == "trace_edit":
                    data = obj.style.model3d.data
                    if data:
                        data[0].kwargs["x"][0] = op["value"]
                        data[0].kwargs["name"] = "edited"
                elif kind == "inplace_getter":
                    arr = getattr(obj, op["name"])
                    if isinstance(arr, np.ndarray) and arr.size:
                        arr += op["value"]
                        self.probe("mutation_through_getter_view")
                    elif isinstance(arr, Rotation):
                        pass
                elif kind == "tree_add":
                    if hasattr(obj, "_children"):
                        s = build_object({"cls": "Sensor"})
                        w.register(s)
                        self.group.append(g)
                        obj.add(s)
                elif kind == "field_func_state":
                    ff = getattr(obj, "field_func", None)
                    if isinstance(ff, functools.partial):
                        ff.keywords["params"]["amp"] = float(op.get("value", 2))
                        ff.keywords["params"]["hist"].append(op.get("value", 2))
                        self.probe("stateful_field_func_mutated")
                elif kind == "mesh_method":
                    if type(obj).__name__ == "TriangularMesh":
                        getattr(obj, op.get("method", "check_open"))()
                        self.probe("mesh_method_called")
                elif kind == "user_attr":
                    # user state hung on the object (mutable): copies must get their own
                    if not hasattr(obj, "userdata"):
                        obj.userdata = {"notes": [1, 2], "arr": np.arange(3.0)}
                    else:
                        obj.userdata["notes"].append(op.get("value", 0))
                        obj.userdata["arr"] += 1.0
                elif kind == "tree_remove":
                    if hasattr(obj, "_children") and obj._children:
                        obj.remove(obj._children[op.get("which", 0) % len(obj._children)])
                elif kind == "children_styles":
                    if hasattr(obj, "_children"):
                        obj.set_children_styles(**{op["leaf"]: op["value"]})
                else:
                    raise HarnessError(kind)
        except HarnessError:
            raise
        except Exception as e:
            out = "raised:" + type(e).__name__
        self.stats["ops"] += 1
        self.stats["mutation." + kind] += 1
        self.stats["mutation_outcome." + out.split(":")[0]] += 1
        self.log.add("mut", self.step, kind, i, out, sdigest(self._snap_group(g)))
        side = "copy" if g > 0 else "orig"
        self.transition("mutate", kind, type(obj).__name__, side, out.split(":")[0], self.n_groups > 1)
        self._check_others(g, f"mutation {kind} ({out})", op)

    def apply(self, op):
        if op["op"] == "copy":
            self._copy(op)
        elif op["op"] == "mutate":
            self._mutate(op)
        else:
            raise HarnessError(op["op"])

    def epilogue(self):
        w = self.world
        for i in range(len(w.objs) - 1, -1, -1):
            if self.group[i] > 0:
                self.step += 1
                self._mutate({"op": "mutate", "kind": "path", "o": i,
                              "pop": {"op": "move", "o": i, "d": [0.5, 0.5, 0.5], "start": "auto"}})
                self.step += 1
                self._mutate({"op": "mutate", "kind": "style_update", "o": i, "leaf": "color", "value": "green"})
                break


def _height(c):
    h = 0
    for ch in getattr(c, "_children", []) or []:
        h = max(h, 1 + (_height(ch) if hasattr(ch, "_children") else 0))
    return h


def iterated_label(name):
    """the documented label iteration of copies: 'col' -> 'col_01', 'col1' -> 'col2', 'col_02' -> 'col_03'"""
    import re

    m = re.search(r"[0-9]+\Z", name)
    if m is None:
        return name + ("" if name.endswith("_") else "_") + "01"
    digits = m.group()
    return name[: m.start()] + str(int(digits) + 1).zfill(len(digits))


def _flatten_keys(d, prefix=""):
    for k, v in d.items():
        if isinstance(v, dict):
            yield from _flatten_keys(v, prefix + k + "_")
        else:
            yield prefix + k


def _norm(v):
    return list(v) if isinstance(v, tuple) else v


def _drop_label(s):
    """remove the label leaf from an encoded style (any nesting produced by snapshot.enc)"""
    if isinstance(s, dict):
        for k in list(s):
            if k == "_label":
                del s[k]
            else:
                _drop_label(s[k])
    elif isinstance(s, list):
        for x in s:
            _drop_label(x)


def _style_eq(got, want):
    if isinstance(want, list):
        return list(got) == list(want) if isinstance(got, (list, tuple)) else False
    if isinstance(want, str) and isinstance(got, str):
        from magpylib._src.defaults.defaults_utility import color_validator

        try:
            return got == want or color_validator(want) == got
        except Exception:
            return got == want
    return got == want


# ----------------------------------------------------------------------------- generator
class Sim:
    id = ID
    level = LEVEL
    runs = {"quick": 3000}
    budget = {"thorough": 600}
    chunk = {"quick": 25, "thorough": 25}
    cross_n = 16
    rule = ("One evaluation = one seeded session: a world of 2-7 objects over all 13 classes (paths, pixels, "
            "parents, nested collections; styles absent / lazily pending / initialised / with model3d traces), an "
            "ageing prefix, then copy(**kw) ops (0-3 keyword overrides: pose, geometry, excitation, style_* magic, "
            "style dict) and mutations of either side (path ops, attribute assignment, style updates in 4 "
            "notations, add_trace and in-place trace edits, in-place edits through getters, tree edits, "
            "set_children_styles). After each copy: class, parentlessness, subtree shape, forest consistency, "
            "equality modulo label/overrides, overrides applied, no shared mutable object or array memory, same "
            "getB, original world bitwise unchanged. After every mutation of one group all other groups are "
            "bitwise unchanged. Before each copy its failing variants (bad kwarg at each position, unknown style "
            "key, un-deep-copyable attachment on each subtree member / inside a trace, warnings as errors) must "
            "leave the world bitwise unchanged. distinct_nontrivial counts distinct (copy: class, parented?, style "
            "state, override kinds, subtree size | mutation: kind, class, side, outcome | failing copy: class, "
            "fault, outcome) tuples.")
    real_components = ["magpylib (all of it, from the working tree under test)", "numpy", "scipy", "copy.deepcopy"]
    stub_components = ["un-deep-copyable attachments (Opaque, stands for a lock/handle on a user subclass)",
                       "invalid keyword arguments to copy()", "warnings filter configuration"]
    assumptions = ["'no style', 'pending style kwargs' and 'initialised style' with the same effective values are the "
                   "same state (copy() initialises the lazily created style of the original, which is not observable "
                   "through the public API)", "label of the copy is not compared (automatically iterated)",
                   "bounds: <= 7 initial objects, <= 4 copies per history"]

    def new_config(self, rng, tier):
        thorough = tier == "thorough"
        return {
            "tier": tier,
            "n_ops": rng.randint(3, 24 if thorough else 10),
            "n_obj": rng.randint(2, 7),
            "n_coll": rng.choice([0, 1, 1, 2]),
            "classes": [c for c in gen.SOURCE_CLASSES + ["Sensor", "Sensor"] if rng.random() < 0.6] or ["Cuboid"],
            "p_copy": rng.choice([0.25, 0.4]),
            "p_kw": rng.choice([0.3, 0.6]),
            "fail_variants": rng.random() < 0.7,
            "mutations": [m for m in ["path", "set_attr", "style_update", "style_update_dict", "style_assign_dict",
                                      "style_attr", "add_trace", "trace_edit", "inplace_getter", "tree_add",
                                      "tree_remove", "children_styles", "user_attr", "field_func_state", "mesh_method"] if rng.random() < 0.7] or ["path"],
        }

    def new_world_spec(self, rng, cfg):
        objs = []
        L = rng.choice([1, 1, 2, 3])
        for _ in range(cfg["n_obj"]):
            cls = rng.choice(cfg["classes"])
            s = gen.obj_spec(rng, cls, rng.choice([1, L]), pixel_kind=rng.choice(gen.PIXELS))
            if cls == "CustomSource" and rng.random() < 0.6:
                s["kw"]["field_func"] = {"partial_amp": rng.choice([1, 2, 0.5])}
            self._style_spec(rng, s)
            objs.append(s)
        free = list(range(len(objs)))
        rng.shuffle(free)
        colls = []
        for _ in range(cfg["n_coll"]):
            c = gen.obj_spec(rng, "Collection", rng.choice([1, L]))
            self._style_spec(rng, c)
            k = rng.randint(1, min(3, max(1, len(free)))) if free else 0
            c["children"] = [free.pop() for _ in range(k)]
            if colls and rng.random() < 0.5:
                c["children"].append(colls.pop())
            objs.append(c)
            colls.append(len(objs) - 1)
        return {"objects": objs}

    def _style_spec(self, rng, s):
        r = rng.random()
        if r < 0.3:
            return
        leaves = style_leaves(s["cls"])
        picks = rng.sample(leaves, rng.randint(1, 3))
        if rng.random() < 0.35:
            # given as ONE nested dictionary (style={...}) instead of underscore keywords
            s["style_dict"] = _nest_many([(k, rng.choice(vals)) for k, vals in picks])
        else:
            s["style"] = {"style_" + k: rng.choice(vals) for k, vals in picks}
        if r > 0.6:
            s["style_init"] = True
            if rng.random() < 0.4:
                s["traces"] = [{"x": [0, rng.randint(1, 5)]}]

    def session(self, spec, cfg):
        return C18Session(spec, cfg)

    def _gen_copy(self, rng, cfg, sess):
        w = sess.world
        n = len(w.objs)
        # prefer interesting targets: parented objects, collections
        cands = list(range(n))
        par = [i for i in cands if w.objs[i]._parent is not None]
        cols = [i for i in cands if hasattr(w.objs[i], "_children")]
        r = rng.random()
        o = rng.choice(par) if (par and r < 0.35) else rng.choice(cols) if (cols and r < 0.6) else rng.choice(cands)
        obj = w.objs[o]
        cls = type(obj).__name__
        kw = {}
        if rng.random() < cfg["p_kw"]:
            for _ in range(rng.randint(1, 3)):
                r = rng.random()
                if r < 0.25:
                    kw["position"] = gen.vec3(rng) if rng.random() < 0.5 else gen.path(rng, rng.randint(1, 3))
                elif r < 0.4:
                    kw["orientation"] = gen.rotvecs(rng, rng.randint(1, 2))
                elif r < 0.6 and cls not in ("Collection", "Sensor", "CustomSource", "TriangularMesh"):
                    nk = gen.source_kw(rng, cls)
                    nk.pop("field_func", None)
                    if nk:
                        k = rng.choice(sorted(nk))
                        kw[k] = nk[k]
                elif r < 0.7 and cls == "Sensor":
                    if rng.random() < 0.5:
                        kw["pixel"] = gen.pixel(rng, rng.choice(["p3", "p23"]))
                    else:
                        kw["handedness"] = rng.choice(["left", "right"])
                else:
                    k, vals = rng.choice(style_leaves(cls))
                    kw["style_" + k] = rng.choice(vals)
        # array valued overrides: as float64 arrays the caller keeps, or the original's own getter value
        kw_form = {}
        for k, v in kw.items():
            if isinstance(v, list) and not k.startswith("style") and k != "orientation" and rng.random() < 0.35:
                kw_form[k] = "nd"
        if rng.random() < 0.15:
            names = [a for a in ("pixel", "position", "polarization", "dimension", "vertices", "moment")
                     if getattr(obj, a, None) is not None
                     and getattr(getattr(type(obj), a, None), "fset", None) is not None]
            if names:
                a = rng.choice(names)
                kw[a] = np.asarray(getattr(obj, a), dtype=float).tolist()
                kw_form[a] = "attrof"
        if rng.random() < 0.2 and "style" not in kw:
            # a nested style dictionary as override, preferably below a top-level key the object already uses
            leaves = style_leaves(cls)
            have = set()
            for src in (getattr(obj, "_style_kwargs", None) or {},):
                have |= {str(k).split("_")[0] for k in src}
            pool = [lv for lv in leaves if lv[0].split("_")[0] in have and "_" in lv[0]] or \
                   [lv for lv in leaves if "_" in lv[0]]
            k, vals = rng.choice(pool)
            kw["style"] = nest(k, rng.choice(vals))
            if rng.random() < 0.4:
                # the label given in dictionary form must win over the automatic iteration (wave 10, C18_m)
                kw["style"]["label"] = rng.choice(["mine", "b_01", "x7"])
        if rng.random() < 0.1:
            kw["style_" + rng.choice(["path", "description", "legend", "model3d"])] = {"$substyle": None}
            k_ = [k for k in kw if isinstance(kw[k], dict) and "$substyle" in kw[k]][0]
            kw[k_] = {"$substyle": k_[6:]}
        if cols and rng.random() < 0.15:
            # copy(parent=coll): only collections of the original world that are not inside the copied subtree
            sub = {id(x) for x in subtree(obj)}
            cand = [i for i in cols if id(w.objs[i]) not in sub and sess.group[i] == sess.group[o]]
            if cand:
                items = list(kw.items())
                items.insert(rng.randint(0, len(items)), ("parent", rng.choice(cand)))
                kw = dict(items)
        op = {"op": "copy", "o": o, "kw": [[k, v] for k, v in kw.items()]}
        if kw_form:
            op["kw_form"] = {k: f for k, f in kw_form.items() if k in kw}
        if cfg["fail_variants"]:
            vs = []
            nkw = len(kw)
            for pos in range(nkw + 1):
                bad = rng.choice([("position", [1.0, 2.0], "bad_position"), ("style_color", "nocolor", "bad_style_value"),
                                  ("style_bogus", 1, "unknown_style_key"), ("orientation_x", "abc", "junk_attr"),
                                  ("style_opacity", 7, "bad_opacity"), ("style", "notadict", "style_not_dict")])
                vs.append({"kind": "bad_kwarg", "pos": pos, "key": bad[0], "value": bad[1], "name": bad[2]})
            members = [w.index(x) for x in subtree(obj)]
            for m in members[:4]:
                vs.append({"kind": "uncopyable", "ref": m, "where": "attr"})
                if getattr(w.objs[m], "_style", None) is not None and w.objs[m]._style.model3d.data:
                    vs.append({"kind": "uncopyable", "ref": m, "where": "trace"})
            vs.append({"kind": "warn_error"})
            if len(vs) > 8:
                vs = rng.sample(vs, 8)
            if hasattr(obj, "_children"):
                # members of the original world (children of obj itself or of another collection, or free) given
                # as the children of the copy, followed by a keyword that is rejected
                sub_cols = {id(x) for x in subtree(obj) if hasattr(x, "_children")}
                cand = [i for i in range(len(w.objs)) if sess.group[i] == sess.group[o] and w.objs[i] is not obj
                        and id(w.objs[i]) not in sub_cols and not (hasattr(w.objs[i], "_children")
                                                                    and obj in subtree(w.objs[i]))]
                if cand and rng.random() < 0.5:
                    j = rng.choice(cand)
                    deep = [i for i in cand if any(getattr(ch, "_children", None)
                                                   for ch in getattr(w.objs[i], "_children", []))]
                    is_deep = False
                    if deep and rng.random() < 0.5:
                        j = rng.choice(deep)  # a collection with grandchildren: flattened two levels deep
                        is_deep = True
                    tname = type(w.objs[j]).__name__
                    typed = "sensors" if tname == "Sensor" else "collections" if tname == "Collection" else "sources"
                    bad = rng.choice([("position", [1.0, 2.0], "bad_position"), ("style_opacity", 7, "bad_opacity"),
                                      ("style_bogus", 1, "unknown_style_key")])
                    if rng.random() < 0.35:  # ... or a parent that is rejected (the parent is assigned last)
                        bad = ("parent", "$junk", "bad_parent")
                    keys = ["children", typed]
                    if typed == "collections":
                        # a collection given as `sources` / `sensors` is flattened: objects from deep inside it move
                        keys += ["sources", "sensors"]
                    key = rng.choice(keys)
                    if is_deep and rng.random() < 0.7:
                        key, bad = rng.choice(["sources", "sensors"]), ("parent", "$junk", "bad_parent")
                    vs.append({"kind": "tree_then_bad", "tree_key": key, "members": [j],
                               "key": bad[0], "value": bad[1], "name": bad[2]})
            op["fail_variants"] = vs
        return op

    def _gen_mutation(self, rng, cfg, sess):
        w = sess.world
        n = len(w.objs)
        o = rng.randrange(n)
        if sess.n_groups > 1 and rng.random() < 0.5:  # aim at copies
            cp = [i for i in range(n) if sess.group[i] > 0]
            o = rng.choice(cp)
        obj = w.objs[o]
        cls = type(obj).__name__
        kind = rng.choice(cfg["mutations"])
        if kind == "mesh_method":
            ms = [i for i in range(n) if type(w.objs[i]).__name__ == "TriangularMesh"]
            if ms:
                o = rng.choice(ms)
                obj = w.objs[o]
                cls = type(obj).__name__
        if kind == "field_func_state":
            cs = [i for i in range(n) if isinstance(getattr(w.objs[i], "_field_func", None), functools.partial)]
            if cs:
                o = rng.choice(cs)
                obj = w.objs[o]
                cls = type(obj).__name__
        op = {"op": "mutate", "kind": kind, "o": o}
        if kind == "path":
            op["pop"] = pathops.gen_path_op(rng, o, len(obj._position), kinds=("move", "rotate", "setter"),
                                            forms=["rotation", "angax", "rotvec"], wild=False)
        elif kind == "set_attr":
            if cls == "Sensor":
                if rng.random() < 0.5:
                    op.update(name="pixel", value=gen.pixel(rng, rng.choice(["p3", "p23"])))
                else:
                    op.update(name="handedness", value=rng.choice(["left", "right"]))
            elif cls in ("Collection", "CustomSource"):
                op.update(kind="path", pop=pathops.gen_move(rng, o, len(obj._position), wild=False))
            else:
                nk = gen.source_kw(rng, cls)
                nk.pop("faces", None)
                k = rng.choice(sorted(nk))
                if cls == "TriangularMesh" and k == "vertices":
                    k = "polarization" if "polarization" in nk else "magnetization"
                op.update(name=k, value=nk[k])
        elif kind in ("style_update", "style_update_dict", "style_assign_dict", "style_attr", "children_styles"):
            k, vals = rng.choice(style_leaves(cls) if kind != "children_styles" else STYLE_COMMON[:5])
            op.update(leaf=k, value=rng.choice(vals))
        elif kind == "add_trace":
            op["x"] = [0, rng.randint(1, 5)]
        elif kind == "trace_edit":
            op["value"] = rng.randint(6, 9)
        elif kind == "inplace_getter":
            names = ["position"]
            for nm in ("vertices", "polarization", "magnetization", "dimension", "moment", "pixel"):
                if getattr(obj, "_" + nm, None) is not None:
                    names.append(nm)
            op.update(name=rng.choice(names), value=rng.choice([0.5, 1.0, -0.25]))
        elif kind == "tree_remove":
            op["which"] = rng.randrange(4)
        elif kind == "field_func_state":
            op["value"] = rng.choice([2, 3, 5, -1])
        elif kind == "mesh_method":
            op["method"] = rng.choice(["check_open", "check_disconnected", "check_selfintersecting", "reorient_faces",
                                       "get_open_edges", "get_faces_subsets", "get_selfintersecting_faces"])
        return op

    def gen_op(self, rng, cfg, sess):
        n_copies = sess.n_groups - 1
        last = sess.step + 1 >= cfg["n_ops"] - 1
        if n_copies < 4 and len(sess.world.objs) < 40 and (rng.random() < cfg["p_copy"] or (n_copies == 0 and
                                                                                       sess.step + 1 >= 2)):
            return self._gen_copy(rng, cfg, sess)
        return self._gen_mutation(rng, cfg, sess)

    def simplify_op(self, op):
        if op["op"] == "copy":
            fv = op.get("fail_variants")
            if fv:
                yield {k: v for k, v in op.items() if k != "fail_variants"}
                if len(fv) > 1:
                    for f in fv:
                        yield dict(op, fail_variants=[f])
                for f in fv:
                    if f.get("pos", 0) > 0:
                        yield dict(op, fail_variants=[dict(f, pos=0)])
            kw = op.get("kw", [])
            for j in range(len(kw)):
                yield dict(op, kw=kw[:j] + kw[j + 1:])
        elif op["op"] == "mutate" and op["kind"] == "path":
            from .c09 import simplify_path_op

            for p in simplify_path_op(op["pop"]):
                yield dict(op, pop=p)

    def simplify_spec(self, spec, ops):
        from .c08 import generic_simplify_spec

        objs = spec["objects"]
        for i, o in enumerate(objs):
            for key in ("traces", "style_init", "style"):
                if key in o:
                    c = list(objs)
                    c[i] = {k: v for k, v in o.items() if k != key}
                    yield {"objects": c}
        yield from generic_simplify_spec(spec, ops)
