"""C11 — the collection tree stays a consistent forest under any history (DESIGN.md §3 C11).

Level: fault_enumeration — at every step of a sampled history every recorded poison
(position x kind) variant of that step's operation is executed on a twin world.
Oracle: exactly the stated invariant I1..I4, after every call, returned or raised.
"""
from __future__ import annotations

import contextlib
import io
import warnings

from ..core import HarnessError, Session, Violation
from ..world import Opaque, World, build_object, cls_of

ID = "C11"
LEVEL = "fault_enumeration"

LEAF_SPECS = [
    {"cls": "Sensor"},
    {"cls": "Dipole", "kw": {"moment": [1, 0, 0]}},
    {"cls": "Cuboid", "kw": {"polarization": [0, 0, 1], "dimension": [1, 1, 1]}},
    {"cls": "Circle", "kw": {"current": 1, "diameter": 1}},
]

OPS = ["add", "remove", "set_parent", "set_children", "set_sources", "set_sensors",
       "set_collections", "plus", "copy", "new_coll", "iadd"]
POISONS = ["junk", "int", "none", "self", "ancestor", "dup", "parented", "not_child",
           "bad_errors", "uncopyable", "nested_list", "bare"]


# ----------------------------------------------------------------------------- oracle
def _base_source():
    from magpylib._src.obj_classes.class_BaseExcitations import BaseSource

    return BaseSource


def _is_obj(x):
    return hasattr(x, "_parent") and hasattr(x, "_position")


def _is_coll(x):
    return _is_obj(x) and hasattr(x, "_children")


def forest_errors(world, views_of=None):
    """Return the list of violated invariant codes (first is the most fundamental).

    views_of: None = read the public views of every collection; otherwise a set of id()s - only the public
    properties of these objects are read ("sparse observation": a cache behind a view can only be caught stale
    when not everybody has just been asked), the structural checks on the private attributes are always complete."""
    BaseSource = _base_source()
    Sensor = cls_of("Sensor")
    errs = []
    # closure: pool + everything reachable through parent and children pointers
    allobjs = list(world.objs)
    seen = {id(o) for o in allobjs}
    queue = list(allobjs)
    while queue:
        o = queue.pop()
        nxt = []
        p = getattr(o, "_parent", None)
        if p is not None:
            nxt.append(p)
        if _is_coll(o):
            nxt.extend(o._children)
        for x in nxt:
            if not _is_obj(x):
                errs.append(("I4.child_not_an_object", type(x).__name__))
                continue
            if id(x) not in seen:
                seen.add(id(x))
                allobjs.append(x)
                queue.append(x)
    colls = [o for o in allobjs if _is_coll(o)]
    n = len(allobjs)
    # I3: parent chains terminate
    for o in allobjs:
        p, k = o._parent, 0
        while p is not None and k <= n:
            p = getattr(p, "_parent", None)
            k += 1
        if k > n:
            errs.append(("I3.parent_cycle", ""))
            break
    # I3: no collection below itself (children direction), guarded walk
    cyclic = False
    for c in colls:
        stack = [x for x in c._children if _is_obj(x)]
        visited = set()
        while stack:
            x = stack.pop()
            if x is c:
                cyclic = True
                break
            if id(x) in visited:
                continue
            visited.add(id(x))
            if _is_coll(x):
                stack.extend(y for y in x._children if _is_obj(y))
        if cyclic:
            errs.append(("I3.collection_contains_itself", ""))
            break
    # I1 / I2
    listed = {}
    for c in colls:
        ids = [id(x) for x in c._children]
        if len(set(ids)) != len(ids):
            errs.append(("I1.child_listed_twice", ""))
        for x in c._children:
            if not _is_obj(x):
                continue
            listed.setdefault(id(x), set()).add(id(c))
            if x._parent is not c:
                errs.append(("I1.child_parent_pointer", "listed child does not point back"))
    for o in allobjs:
        p = o._parent
        if p is not None:
            if not _is_coll(p):
                errs.append(("I1.parent_not_a_collection", type(p).__name__))
            elif sum(1 for x in p._children if x is o) != 1:
                errs.append(("I1.parent_lists_child", "parent does not list the object exactly once"))
        if len(listed.get(id(o), ())) > 1:
            errs.append(("I2.two_parents", ""))
        if (views_of is None or id(o) in views_of) and o.parent is not o._parent:
            errs.append(("I1.parent_property", ""))
    # I4: typed views
    for c in colls:
        if views_of is not None and id(c) not in views_of:
            continue
        ch = c._children
        if c.children is not ch and list(c.children) != list(ch):
            errs.append(("I4.children_view", ""))
        exp = {
            "sources": [x for x in ch if isinstance(x, BaseSource)],
            "sensors": [x for x in ch if isinstance(x, Sensor)],
            "collections": [x for x in ch if _is_coll(x)],
        }
        for name, want in exp.items():
            got = getattr(c, name)
            if len(got) != len(want) or any(a is not b for a, b in zip(got, want)):
                errs.append((f"I4.{name}_view", ""))
        if len(ch) != sum(len(v) for v in exp.values()):
            errs.append(("I4.children_partition", ""))
        if not cyclic:
            flat = _flatten(c)
            allv = {
                "children_all": flat,
                "sources_all": [x for x in flat if isinstance(x, BaseSource)],
                "sensors_all": [x for x in flat if isinstance(x, Sensor)],
                "collections_all": [x for x in flat if _is_coll(x)],
            }
            for name, want in allv.items():
                try:
                    got = getattr(c, name)
                except RecursionError:
                    errs.append((f"I4.{name}_view", "recursion"))
                    continue
                if len(got) != len(want) or any(a is not b for a, b in zip(got, want)):
                    errs.append((f"I4.{name}_view", ""))
    return errs


def _flatten(c):
    out = []
    for x in c._children:
        if not _is_obj(x):
            continue
        out.append(x)
        if _is_coll(x):
            out.extend(_flatten(x))
    return out


def forest_digest(world):
    out = []
    for o in world.objs:
        p = o._parent
        row = [world.index(p) if p is not None else None]
        if _is_coll(o):
            row.append([world.index(x) if _is_obj(x) else "?" for x in o._children])
        out.append(row)
    return out


# ----------------------------------------------------------------------------- executor
def _resolve(world, a, target):
    if isinstance(a, int):
        return world[a]
    if a == "$junk":
        return "junk"
    if a == "$int":
        return 7
    if a == "$none":
        return None
    if a == "$self":
        return world[target]
    if a == "$raising_iter":
        return _RaisingIter(world[target + 1])
    if isinstance(a, list):
        return [_resolve(world, x, target) for x in a]
    if isinstance(a, dict) and "viewof" in a:
        # the LIVE list behind a collection's public view (children, sources, ...), not a copy
        c = world[a["viewof"]]
        return getattr(c, a["view"]) if hasattr(c, "_children") else []
    raise HarnessError(f"bad arg token {a!r}")


class _RaisingIter:
    """an iterable that yields one valid object and then fails with an exception of its own"""

    def __init__(self, first):
        self.first = first

    def __iter__(self):
        yield self.first
        raise RuntimeError("iteration failed in user code")


def exec_op(world, op):
    """Execute one tree-editing op on `world`.  Returns outcome string; registers new objects."""
    kind = op["op"]
    Collection = cls_of("Collection")
    attached = None
    try:
        with warnings.catch_warnings(), contextlib.redirect_stdout(io.StringIO()):
            warnings.simplefilter("ignore")
            if kind == "add":
                t = world[op["t"]]
                args = [_resolve(world, a, op["t"]) for a in op["args"]]
                if op.get("flat"):
                    t.add(args, override_parent=op.get("override", False))
                else:
                    t.add(*args, override_parent=op.get("override", False))
            elif kind == "remove":
                t = world[op["t"]]
                args = [_resolve(world, a, op["t"]) for a in op["args"]]
                t.remove(*args, recursive=op.get("recursive", True), errors=op.get("errors", "raise"))
            elif kind == "set_parent":
                o = world[op["o"]]
                p = op["p"]
                o.parent = None if p is None else _resolve(world, p, op["o"])
            elif kind in ("set_children", "set_sources", "set_sensors", "set_collections"):
                t = world[op["t"]]
                args = [_resolve(world, a, op["t"]) for a in op["args"]]
                if op.get("bare"):
                    # a bare value instead of a list: coll.children = obj / None / 5 / 'junk'
                    setattr(t, kind[4:], args[0] if args else None)
                else:
                    setattr(t, kind[4:], args)
            elif kind == "iadd":
                # augmented assignment `t.children += [...]` (also sources/sensors/collections): Python
                # evaluates it as  t.children = t.children.__iadd__([...])
                import operator

                t = world[op["t"]]
                args = [_resolve(world, a, op["t"]) for a in op["args"]]
                setattr(t, op["view"], operator.iadd(getattr(t, op["view"]), args))
            elif kind == "plus":
                a = world[op["a"]]
                b = _resolve(world, op["b"], op["a"])
                new = a + b
                world.register(new)
            elif kind == "new_coll":
                args = [_resolve(world, a, 0) for a in op["args"]]
                new = Collection(*args, override_parent=op.get("override", False))
                world.register(new)
            elif kind == "copy":
                o = world[op["o"]]
                if op.get("uncopyable") is not None:
                    holder = world[op["uncopyable"]]
                    holder._verif_handle = Opaque("h")
                    attached = holder
                kw = {}
                for key, val in (op.get("kw") or []):
                    if key == "parent":
                        kw[key] = _resolve(world, val, op["o"])
                    else:
                        kw[key] = [_resolve(world, a, op["o"]) for a in val]
                new = o.copy(**kw)
                world.register_tree(new)
            else:
                raise HarnessError(f"unknown op {kind}")
        return "ok"
    except HarnessError:
        raise
    except RecursionError:
        return "raised:RecursionError"
    except Exception as e:  # the library rejected the call
        return "raised:" + type(e).__name__
    finally:
        if attached is not None:
            del attached._verif_handle


def apply_variant(op, var):
    """Return the poisoned variant of op described by var (pure data transformation)."""
    v = dict(op)
    k = var["kind"]
    pos = var.get("pos", 0)
    if k == "bare":
        v["bare"] = True
        v["args"] = [var["ref"]] if "ref" in var else []
        return v
    token = {"junk": "$junk", "int": "$int", "none": "$none", "self": "$self"}.get(k)
    if k in ("ancestor", "dup", "parented", "not_child"):
        token = var["ref"]
    if k == "nested_list":
        token = [var["ref"]]
    if op["op"] in ("add", "remove", "new_coll", "set_children", "set_sources", "set_sensors",
                    "set_collections", "iadd"):
        if k == "bad_errors":
            v["errors"] = "bogus"
            return v
        args = list(op["args"])
        args.insert(min(pos, len(args)), token)
        v["args"] = args
        if k == "parented":
            v["override"] = False
        return v
    if op["op"] == "set_parent":
        v["p"] = token
        return v
    if op["op"] == "plus":
        v["b"] = token
        return v
    if op["op"] == "copy":
        v["uncopyable"] = var["ref"]
        return v
    raise HarnessError("variant for " + op["op"])


# ----------------------------------------------------------------------------- session
class C11Session(Session):
    def __init__(self, spec, cfg):
        super().__init__(spec, cfg)
        self.world = World(spec)
        self.twin = None
        self.history = []

    # twin worlds ---------------------------------------------------------------
    def _twin_rebuild(self):
        tw = World(self.spec)
        for op in self.history:
            exec_op(tw, op)
            self._adopt_externals(tw)
        return tw

    def _twin_mirror(self):
        """Persistent twin whose forest pointers are set to mirror the main world."""
        main = self.world
        tw = self.twin
        if tw is None:
            tw = self.twin = World(self.spec)
        n = len(main.objs)
        if len(tw.objs) > n:
            del tw.objs[n:]
            tw._idx = {id(o): i for i, o in enumerate(tw.objs)}
        while len(tw.objs) < n:
            tw.register(build_object({"cls": type(main.objs[len(tw.objs)]).__name__, **_min_kw(main.objs[len(tw.objs)])}))
        for i, o in enumerate(main.objs):
            t = tw.objs[i]
            p = o._parent
            t._parent = None if p is None else tw.objs[main.index(p)]
            if _is_coll(o):
                for name in ("_children", "_sources", "_sensors", "_collections"):
                    setattr(t, name, [tw.objs[main.index(x)] for x in getattr(o, name)])
        return tw

    @staticmethod
    def _adopt_externals(world):
        """objects that are reachable from the pool but were never handed to the caller (the half-made
        collection of a constructor or copy that raised) become pool members, so that twins can mirror them"""
        queue = list(world.objs)
        while queue:
            o = queue.pop()
            nxt = [o._parent] if getattr(o, "_parent", None) is not None else []
            nxt += [x for x in getattr(o, "_children", []) or [] if _is_obj(x)]
            for x in nxt:
                if _is_obj(x) and world.index(x) is None:
                    world.register(x)
                    queue.append(x)

    def make_twin(self):
        if self.cfg.get("twin_mode") == "rebuild":
            return self._twin_rebuild()
        return self._twin_mirror()

    # ---------------------------------------------------------------------------
    def _observe(self, world):
        """the public observers named by the property must work on, and not disturb, a consistent forest"""
        before = forest_digest(world)
        for i in world.colls()[:6]:
            c = world.objs[i]
            try:
                with contextlib.redirect_stdout(io.StringIO()):
                    txt = c.describe(format="type+label", return_string=True)
                    n_all = len(c.children_all)
            except Exception as e:
                return ("observer.describe", f"describe() raised {type(e).__name__} on a consistent forest")
            # one line for the collection itself + one per descendant (max_elems=10 per level not exceeded here)
            if all(len(getattr(x, "_children", [])) <= 10 for x in [c] + _flatten(c)):
                # (format-agnostic: every member is named by its type, as often as there are members of the type)
                import collections as _c

                want = _c.Counter(type(x).__name__ for x in [c] + _flatten(c))
                short = {t: (txt.count(t), n) for t, n in want.items() if txt.count(t) < n}
                if short:
                    return ("observer.describe", f"describe() names fewer members than children_all has "
                            f"({n_all}): {short}")
            # the container protocol of a collection is another view of its children (documented: iterating,
            # indexing and len() go over `children`)
            try:
                kids = list(c.children)
                seen = list(iter(c))
                n = len(c)
                idx = [c[j] for j in range(len(kids))] + ([c[-1]] if kids else [])
            except Exception as e:
                return ("observer.container", f"iter/len/[] raised {type(e).__name__} on a consistent forest")
            if n != len(kids) or len(seen) != len(kids) or any(a is not b for a, b in zip(seen, kids)) or \
                    any(a is not b for a, b in zip(idx, kids + kids[-1:])):
                return ("observer.container", "iter(coll) / len(coll) / coll[i] disagree with coll.children")
        if forest_digest(world) != before:
            return ("observer.mutates", "describe()/children_all changed the forest")
        return None

    def _check(self, world, op, outcome, var=None):
        obs = op.get("obs", "all") if var is None else "all"
        if obs == "all":
            views_of = None
        else:
            # sparse observation (wave 10, C11_m): the public views of nobody / of the roots / of one collection only
            cs = [world.objs[i] for i in world.colls()]
            if obs == "roots":
                cs = [c for c in cs if c._parent is None]
            elif obs == "none":
                cs = []
            else:
                cs = [cs[obs["pick"] % len(cs)]] if cs else []
            views_of = {id(c) for c in cs}
            self.probe("sparse_observation." + (obs if isinstance(obs, str) else "pick"))
        errs = forest_errors(world, views_of)
        if not errs and self.cfg.get("observe", True) and obs == "all":
            o = self._observe(world)
            if o:
                errs = [o]
        if errs:
            code, detail = errs[0]
            raise Violation(
                code, detail + f" (all: {sorted({c for c, _ in errs})})",
                op=op["op"], fault=("poison:" + var["kind"]) if var else None,
                outcome=outcome,
            )

    def _shape_class(self):
        w = self.world
        edges = sum(1 for o in w.objs if o._parent is not None)
        depth = 0
        for o in w.objs:
            d, p = 0, o._parent
            while p is not None and d < 10:
                d += 1
                p = p._parent
            depth = max(depth, d)
        return [min(edges, 4), min(depth, 3)]

    def apply(self, op):
        shape = self._shape_class()
        # 1. enumerated poison variants of this step's op, each on a twin of the current state
        for var in op.get("variants", []):
            tw = self.make_twin()
            if forest_digest(tw) != forest_digest(self.world):
                raise HarnessError("twin does not mirror the main world")
            vop = apply_variant(op, var)
            out = exec_op(tw, vop)
            self.stats["variants"] += 1
            self.stats["variant_outcome." + out.split(":")[0]] += 1
            if out != "ok":
                self.fault_fired("poison:" + var["kind"])
                if var.get("pos", 0) >= 1:
                    self.probe("rejected_at_pos>=1")
                if op["op"] == "new_coll":
                    self.probe("constructor_raised")
                if op["op"].startswith("set_") and op["op"] != "set_parent":
                    self.probe("typed_setter_raised")
                if op["op"] == "copy":
                    self.probe("copy_failed" + ("_parented" if self.world[op["o"]]._parent is not None else ""))
            self.log.add("v", self.step, var["kind"], var.get("pos"), out, forest_digest(tw))
            self.transition(op["op"], len(op.get("args", [])), var["kind"], min(var.get("pos", 0), 2),
                            out, shape)
            self._check(tw, vop, out, var)
        # 2. the op itself on the main world
        before = forest_digest(self.world)
        out = exec_op(self.world, op)
        self._adopt_externals(self.world)
        self.history.append(op)
        after = forest_digest(self.world)
        self.stats["ops"] += 1
        self.stats["op." + op["op"]] += 1
        self.stats["outcome." + out.split(":")[0]] += 1
        if out != "ok":
            self.fault_fired("natural_reject:" + op["op"])
        if op["op"] == "plus" and isinstance(op["b"], int) and self.world[op["b"]]._parent is not None:
            self.probe("plus_with_parented_right_operand")
        self.log.add("op", self.step, op["op"], out, after)
        if before != after or out != "ok":
            self.transition(op["op"], len(op.get("args", [])), None, 0, out, shape)
        self._check(self.world, op, out)

    def epilogue(self):
        """Fault-free probe: the session must be fully usable (bounded liveness analogue)."""
        w = self.world
        colls = w.colls()
        if not colls:
            return
        t = colls[0]
        i = w.register(build_object({"cls": "Sensor"}))
        for op in ({"op": "add", "t": t, "args": [i]}, {"op": "remove", "t": t, "args": [i]}):
            out = exec_op(w, op)
            self.log.add("epi", op["op"], out, forest_digest(w))
            if out != "ok":
                raise Violation("epilogue.usable", f"{op['op']} of a fresh sensor {out}", op="epilogue")
            self._check(w, op, out)


def _min_kw(o):
    n = type(o).__name__
    for s in LEAF_SPECS:
        if s["cls"] == n:
            return {"kw": s.get("kw", {})}
    return {}


# ----------------------------------------------------------------------------- generator
class Sim:
    id = ID
    level = LEVEL
    runs = {"quick": 6000}
    budget = {"thorough": 600}
    chunk = {"quick": 100, "thorough": 100}
    rule = ("One evaluation = one seeded session: a pool of 2-5 collections and 2-6 leaves and a history of "
            "3-14 (quick) / 3-40 (thorough) tree-editing ops (add, remove, parent=, children=/sources=/"
            "sensors=/collections=, +, copy, Collection(...)), arguments chosen by looking at the live tree; "
            "before each step every recorded poison variant (position x kind: non-object, int, None, self, "
            "ancestor, duplicate, already-parented, not-a-child, bad errors=, nested list, uncopyable "
            "attachment) of that step's op is executed on a twin of the current state. After every call, "
            "returned or raised, invariants I1-I4 are checked on the pool and everything reachable from it. "
            "distinct_nontrivial counts distinct abstract transitions (op, #args, poison kind, poison position "
            "class, outcome, forest-shape class before) over steps that changed the forest or were rejected.")
    real_components = ["magpylib (all of it, imported from the working tree under test)", "numpy", "scipy"]
    stub_components = ["poison arguments (non-objects, wrong objects) injected into multi-object argument lists",
                       "un-deep-copyable attachment on an object being copied"]
    assumptions = ["single-threaded use (magpylib makes no thread-safety claim)",
                   "bounds: pool <= ~25 objects, argument lists <= 5, histories <= 40 ops",
                   "twin worlds mirror the main world's parent/children pointers (10% of runs rebuild the twin "
                   "by replaying the history instead; both must agree)"]

    def new_config(self, rng, tier):
        thorough = tier == "thorough"
        ops = [o for o in OPS if rng.random() < 0.75] or ["add"]
        if "add" not in ops and rng.random() < 0.8:
            ops.append("add")
        poisons = [p for p in POISONS if rng.random() < 0.7]
        return {
            "tier": tier,
            "n_ops": rng.randint(3, 40 if thorough else 14),
            "ops": ops,
            "poisons": poisons,
            "n_coll": rng.randint(2, 5),
            "n_leaf": rng.randint(2, 6),
            "max_variants": rng.choice([0, 4, 8, 16, 64]) if poisons else 0,
            "twin_mode": "rebuild" if rng.random() < 0.1 else "mirror",
            "p_override": rng.choice([0.2, 0.5, 0.8]),
            "observe": rng.random() < 0.5,
            "sparse_obs": rng.random() < 0.3,
        }

    def new_world_spec(self, rng, cfg):
        objs = [{"cls": "Collection"} for _ in range(cfg["n_coll"])]
        objs += [dict(rng.choice(LEAF_SPECS)) for _ in range(cfg["n_leaf"])]
        rng.shuffle(objs)
        return {"objects": objs}

    def session(self, spec, cfg):
        return C11Session(spec, cfg)

    # -- argument selection looks at the actual tree so that interesting cases are frequent
    def _pick_args(self, rng, w, t, k):
        n = len(w.objs)
        out = []
        tobj = w[t]
        for _ in range(k):
            r = rng.random()
            cand = None
            if r < 0.25:
                par = [i for i, o in enumerate(w.objs) if o._parent is not None]
                cand = rng.choice(par) if par else None
            elif r < 0.40 and _is_coll(tobj) and tobj._children:
                cand = w.index(rng.choice(tobj._children))
            elif r < 0.50 and _is_coll(tobj):
                fl = _flatten(tobj)
                cand = w.index(rng.choice(fl)) if fl else None
            elif r < 0.60:
                cs = w.colls()
                cand = rng.choice(cs) if cs else None
            if cand is None:
                cand = rng.randrange(n)
            out.append(cand)
        return out

    def _ancestor(self, w, t):
        p = w[t]._parent
        chain = []
        while p is not None and len(chain) < 10:
            chain.append(w.index(p))
            p = p._parent
        return [c for c in chain if c is not None]

    def _variants(self, rng, cfg, w, op):
        kinds = cfg["poisons"]
        if not kinds or cfg["max_variants"] == 0:
            return []
        out = []
        kind = op["op"]
        n = len(w.objs)
        if kind in ("add", "new_coll", "set_children", "set_sources", "set_sensors", "set_collections",
                    "remove", "iadd"):
            t = op.get("t", 0)
            args = op["args"]
            for pos in range(len(args) + 1):
                for k in kinds:
                    if k in ("junk", "int", "none"):
                        out.append({"kind": k, "pos": pos})
                    elif k == "self" and kind != "new_coll":
                        out.append({"kind": k, "pos": pos})
                    elif k == "ancestor" and kind != "new_coll":
                        anc = self._ancestor(w, t)
                        if anc:
                            out.append({"kind": k, "pos": pos, "ref": anc[-1] if rng.random() < 0.5 else anc[0]})
                    elif k == "dup" and pos >= 1 and isinstance(args[0], int):
                        out.append({"kind": k, "pos": pos, "ref": args[0]})
                    elif k == "parented" and kind in ("add", "new_coll"):
                        par = [i for i, o in enumerate(w.objs) if o._parent is not None
                               and (kind == "new_coll" or o._parent is not w[t])]
                        if par:
                            out.append({"kind": k, "pos": pos, "ref": rng.choice(par)})
                    elif k == "not_child" and kind == "remove":
                        tobj = w[t]
                        if _is_coll(tobj):
                            fl = {id(x) for x in _flatten(tobj)}
                            non = [i for i, o in enumerate(w.objs) if id(o) not in fl]
                            if non:
                                out.append({"kind": k, "pos": pos, "ref": rng.choice(non)})
                    elif k == "nested_list" and kind != "remove":
                        out.append({"kind": k, "pos": pos, "ref": rng.randrange(n)})
            if kind == "remove" and "bad_errors" in kinds:
                out.append({"kind": "bad_errors", "pos": 0})
            if kind.startswith("set_") and "bare" in kinds:
                out.append({"kind": "bare", "ref": rng.randrange(n)})          # coll.children = obj
                out.append({"kind": "bare", "ref": rng.choice(["$none", "$int", "$junk"])})
                out.append({"kind": "bare", "ref": "$raising_iter"})
        elif kind == "set_parent":
            for k in kinds:
                if k in ("junk", "int"):
                    out.append({"kind": k})
                elif k == "self":
                    out.append({"kind": k})
                elif k == "ancestor":
                    # make an object the child of one of its own descendants
                    o = w[op["o"]]
                    if _is_coll(o):
                        desc = [w.index(x) for x in _flatten(o) if _is_coll(x)]
                        desc = [d for d in desc if d is not None]
                        if desc:
                            out.append({"kind": k, "ref": rng.choice(desc)})
        elif kind == "plus":
            for k in kinds:
                if k in ("junk", "int", "none", "self"):
                    out.append({"kind": k})
        elif kind == "copy" and "uncopyable" in kinds and not op.get("kw"):
            o = w[op["o"]]
            holders = [op["o"] % n]
            if _is_coll(o):
                holders += [w.index(x) for x in _flatten(o)]
            for h in holders[:4]:
                if h is not None:
                    out.append({"kind": "uncopyable", "ref": h})
        if len(out) > cfg["max_variants"]:
            out = rng.sample(out, cfg["max_variants"])
        return out

    def gen_op(self, rng, cfg, sess):
        w = sess.world
        if len(w.objs) > 24:  # keep the pool bounded: stop producing new objects
            kinds = [k for k in cfg["ops"] if k not in ("plus", "copy", "new_coll")] or ["add"]
        else:
            kinds = cfg["ops"]
        kind = rng.choice(kinds)
        colls = w.colls()
        n = len(w.objs)
        if kind == "iadd":
            t = rng.choice(colls)
            op = {"op": "iadd", "t": t, "view": rng.choice(["children", "children", "sources", "sensors", "collections"]),
                  "args": self._pick_args(rng, w, t, rng.choice([1, 1, 2]))}
        elif kind in ("add", "remove", "set_children", "set_sources", "set_sensors", "set_collections"):
            t = rng.choice(colls)
            k = rng.choice([1, 1, 2, 2, 3, 4])
            if kind != "add" and kind != "remove" and rng.random() < 0.1:
                k = 0
            args = self._pick_args(rng, w, t, k)
            if kind == "remove" and rng.random() < 0.6:
                # aim at the tree below t: a child collection followed by one of its own descendants,
                # the same child twice, ...
                fl = [x for x in _flatten(w[t])] if _is_coll(w[t]) else []
                args = []
                for _ in range(k):
                    prev = w[args[-1]] if args else None
                    if prev is not None and _is_coll(prev) and prev._children and rng.random() < 0.6:
                        args.append(w.index(rng.choice(_flatten(prev))))
                    elif fl and rng.random() < 0.85:
                        args.append(w.index(rng.choice(fl)))
                    else:
                        args.append(rng.randrange(n))
            if rng.random() < 0.08:
                # the argument is the live list behind another (or the same) collection's public view
                args = [{"viewof": rng.choice(colls), "view": rng.choice(["children", "sources", "sensors",
                                                                            "collections", "children_all"])}]
            op = {"op": kind, "t": t, "args": args}
            if kind == "add":
                op["override"] = rng.random() < cfg["p_override"]
                op["flat"] = rng.random() < 0.2
            if kind == "remove":
                op["recursive"] = rng.random() < 0.6
                op["errors"] = "ignore" if rng.random() < 0.4 else "raise"
        elif kind == "set_parent":
            o = rng.randrange(n)
            r = rng.random()
            p = None if r < 0.3 else rng.choice(colls)
            op = {"op": kind, "o": o, "p": p}
        elif kind == "plus":
            op = {"op": kind, "a": rng.randrange(n), "b": rng.randrange(n)}
        elif kind == "new_coll":
            k = rng.choice([0, 1, 2, 3])
            op = {"op": kind, "args": self._pick_args(rng, w, rng.choice(colls), k),
                  "override": rng.random() < cfg["p_override"]}
        elif kind == "copy":
            o = rng.randrange(n)
            op = {"op": kind, "o": o}
            if rng.random() < 0.35:
                # copy with tree-editing keywords; the arguments may name the original itself, its parent,
                # its children or unrelated objects
                def pick():
                    r = rng.random()
                    if r < 0.3:
                        return o
                    obj = w[o]
                    if r < 0.45 and obj._parent is not None:
                        return w.index(obj._parent)
                    if r < 0.6 and _is_coll(obj) and obj._children:
                        return w.index(rng.choice(obj._children))
                    return rng.randrange(n)
                if _is_coll(w[o]) and rng.random() < 0.7:
                    key = rng.choice(["children", "children", "collections", "sources", "sensors"])
                    op["kw"] = [[key, [pick() for _ in range(rng.choice([1, 2, 2, 3]))]]]
                    r2 = rng.random()
                    deep = [i for i in colls if i != o and any(getattr(ch, "_children", None)
                                                                for ch in w[i]._children)]
                    if deep and rng.random() < 0.4:
                        # a collection with grandchildren given as sources / sensors is flattened: objects from
                        # two levels down change their parent - and must get it back when the call is rejected
                        op["kw"] = [[rng.choice(["sources", "sensors"]), [rng.choice(deep)]]]
                        key = op["kw"][0][0]
                        r2 = rng.choice([0.35, 0.5, r2])
                    if r2 < 0.3:
                        op["kw"].append(["parent", rng.choice(colls)])
                    elif r2 < 0.45:
                        # a parent that is rejected after the tree inputs were applied: everything must be put back
                        op["kw"].append(["parent", "$junk"])
                    elif r2 < 0.55:
                        # ... or a second tree input that is rejected
                        op["kw"].append([rng.choice([k for k in ("children", "sources", "sensors") if k != key]),
                                         [pick(), "$junk"]])
                else:
                    op["kw"] = [["parent", rng.choice(colls)]]
        else:
            raise HarnessError(kind)
        vs = self._variants(rng, cfg, w, op)
        if vs:
            op["variants"] = vs
        if cfg.get("sparse_obs"):
            r = rng.random()
            op["obs"] = "none" if r < 0.4 else "roots" if r < 0.65 else {"pick": rng.randrange(8)} if r < 0.85 else "all"
        return op

    # -- shrinking support -------------------------------------------------------
    def simplify_op(self, op):
        """Yield simpler candidate ops."""
        vs = op.get("variants", [])
        if vs:
            yield {k: v for k, v in op.items() if k != "variants"}
            for i in range(len(vs)):
                c = dict(op)
                c["variants"] = [vs[i]]
                if len(vs) > 1:
                    yield c
            for i, v in enumerate(vs):
                if v.get("pos", 0) > 0:
                    c = dict(op)
                    c["variants"] = vs[:i] + [dict(v, pos=v["pos"] - 1)] + vs[i + 1:]
                    yield c
        args = op.get("args")
        if args and len(args) > 1:
            for i in range(len(args)):
                c = dict(op)
                c["args"] = args[:i] + args[i + 1:]
                yield c
        for k, simple in (("flat", False), ("override", False), ("recursive", True), ("errors", "raise")):
            if k in op and op[k] != simple:
                yield dict(op, **{k: simple})

    def simplify_spec(self, spec, ops):
        objs = spec["objects"]
        # dropping an object shifts indices: only drop from the end, and only if unreferenced
        if len(objs) > 1:
            yield {"objects": objs[:-1]}
        for i, o in enumerate(objs):
            if o["cls"] not in ("Collection", "Sensor"):
                c = list(objs)
                c[i] = {"cls": "Sensor"}
                yield {"objects": c}
