"""C20 — style settings resolve by precedence and never leak (DESIGN.md §3 C20).

Level: exploration — histories over the process-global defaults and per-object styles against
a four-layer reference model; invalid variants of every step enumerated.
"""
from __future__ import annotations

import contextlib
import copy
import io
import json
import warnings

import numpy as np

from .. import env
from ..core import HarnessError, Session, Violation, canon, digest
from ..models import style_model as sm
from ..world import World, build_object, cls_of

ID = "C20"
LEVEL = "exploration"

OBJ_CLASSES = ["Cuboid", "Cylinder", "Sphere", "Tetrahedron", "TriangularMesh", "Triangle", "Circle", "Polyline",
               "Dipole", "Sensor", "Collection", "CustomSource", "CylinderSegment"]
OBJ_NOTATIONS = ["magic_update", "nested_update", "attr", "assign_dict", "assign_magic_dict", "mixed_update",
                 "magic_then_dict", "attr_dict", "str_shortcut", "partial_magic", "assign_style_object",
                 "assign_substyle_object"]
CTOR_NOTATIONS = ["ctor_magic", "ctor_dict", "ctor_mixed"]
DEF_NOTATIONS = ["fam_update", "style_update_nested", "style_update_magic", "attr", "display_update",
                 "fam_mixed_update", "fam_attr_dict", "fam_assign_dict", "defaults_update_nested",
                 "defaults_update_magic", "defaults_partial_magic"]


def magic_then_dict_kwargs(items):
    """keyword arguments in the order: first leaf as underscore keyword, then the remaining leaves as nested
    dictionaries under their top-level keys (e.g. path_line_width=3, path={"line": {"color": "red"}})"""
    kw = {items[0][0]: own(items[0][1], items[0][0])}
    for top, val in nest_items(items[1:]).items():
        kw[top] = val
    return kw


def partial_magic(items, prefix=""):
    """one dictionary in which every leaf is written with its own split between underscore key and nested
    dictionary: path_line_width=2 as {"path": {"line": {"width": 2}}}, {"path_line": {"width": 2}},
    {"path": {"line_width": 2}} or {"path_line_width": 2}.  The split is a function of the item so that replay needs
    nothing else; entries meeting under one key are merged by the caller (a dict cannot hold a key twice)."""
    def put(d, keys, v):
        if len(keys) == 1:
            d[keys[0]] = v
        else:
            sub = d.get(keys[0])
            if not isinstance(sub, dict):
                sub = d[keys[0]] = {}
            put(sub, keys[1:], v)

    out = {}
    for n, (leaf, v) in enumerate(items):
        parts = (prefix + leaf).split("_")
        # choose which of the len(parts)-1 gaps are "_" (joined) and which are nesting levels
        mask = (len(leaf) * 7 + n * 3 + len(parts)) % (1 << (len(parts) - 1))
        keys = [parts[0]]
        for g, p in enumerate(parts[1:]):
            if mask >> g & 1:
                keys[-1] += "_" + p
            else:
                keys.append(p)
        put(out, keys, own(v, leaf))
    return out


def assign_sub_dicts(target, items):
    """attribute assignment of nested dictionaries one level below `target` (style.path = {...})"""
    for top, val in nest_items(items).items():
        setattr(target, top, val)
SKIP_RESOLVE = ("model3d_data", "label")
TM_KW = {"vertices": [[0, 0, 0], [1, 0, 0], [0, 1, 0], [0, 0, 1]], "faces": [[0, 1, 2], [0, 1, 3], [0, 2, 3], [1, 2, 3]],
         "polarization": [0, 0, 1]}


_SCRIBBLE = []  # caller-owned mutable values handed to the library in the current call


def own(v, leaf=None):
    """a caller-owned copy of a value; lists are remembered and overwritten after the call"""
    v = copy.deepcopy(v)
    if isinstance(v, list) and leaf is not None and sm.kind_of(leaf) == "color":
        return tuple(v)  # rgb colours are given as tuples (the validator needs hashable input)
    if isinstance(v, list):
        _SCRIBBLE.append(v)
    return v


def nest_items(items):
    out = {}
    for leaf, v in items:
        d = out
        parts = leaf.split("_")
        for p in parts[:-1]:
            d = d.setdefault(p, {})
        d[parts[-1]] = own(v, leaf)
    return out


def flat(style):
    d = style.as_dict(flatten=True, separator="_")
    return {k: sm.norm(v) for k, v in d.items() if not sm.is_alias(k)}


def own_flat(o, i="?"):
    """flat own style of an object; merely reading obj.style must never raise in a session whose writes
    were all accepted or rejected cleanly"""
    try:
        return flat(o.style)
    except Exception as e:
        raise Violation("style_access_raised", f"reading the style of object {i} ({type(o).__name__}) raised "
                        f"{type(e).__name__}: {str(e)[:120]}", op="read") from None


_BOOM = {"calls": 0}


def _boom(*a, **k):
    """scripted model3d updatefunc: valid whenever the style machinery probes it (assignment, update,
    copy), fails when it is called while the object's traces are being drawn"""
    import sys

    _BOOM["calls"] += 1
    f = sys._getframe(1)
    while f is not None:
        if f.f_code.co_name == "get_generic_traces3D":
            raise RuntimeError("scripted updatefunc failure at draw time")
        f = f.f_back
    return {}


class C20Session(Session):
    def __init__(self, spec, cfg):
        super().__init__(spec, cfg)
        env.reset_defaults()
        self.world = World(spec)
        self.model = sm.StyleModel()
        for o in self.world.objs:
            self._register_model(o)
        from magpylib._src.display.traces_generic import MagpyMarkers

        # a markers object (family 'markers'); it is not part of the pool: its model lives at index -1
        self.markers = MagpyMarkers((0, 0, 0))
        self.markers_S = {k: v for k, v in flat(type(self.markers.style)()).items() if not sm.is_alias(k)}
        self.traces = {}

    def close(self):
        env.reset_defaults()

    def _register_model(self, o):
        fresh = type(o)._style_class()
        return self.model.add_object(type(o).__name__, flat(fresh))

    # ---------------------------------------------------------------- observation
    def _settings(self):
        from magpylib._src.defaults.defaults_classes import default_settings

        return default_settings

    def _state(self):
        """canonical observable style state of the whole session"""
        objs = [own_flat(o, i) for i, o in enumerate(self.world.objs)]
        for d in objs:
            d.pop("model3d_data", None)
        dfl = flat(self._settings().display.style)
        return {"objs": objs, "markers": flat(self.markers.style), "defaults": dfl,
                "display": {k: sm.norm(v) for k, v in self._settings().display.as_dict(flatten=True, separator="_").items()
                            if not k.startswith("style_")}}

    def _trace_enc(self, o):
        """canonical encoding of the user-defined model3d traces of an object (object-level style data)"""
        from ..snapshot import enc

        try:
            return enc([vars(t) for t in o.style.model3d.data], self.world.index)
        except HarnessError:
            return "unencodable"

    def _check_traces(self, op):
        """model3d traces are object-level: a step may change the traces of the object it addresses (and a
        copy starts with equal traces), nobody else's"""
        addressed = op.get("o") if op["op"] in ("add_trace", "trace_edit") else None
        addressed = addressed % len(self.world.objs) if isinstance(addressed, int) else None
        for i, o in enumerate(self.world.objs):
            now = self._trace_enc(o)
            if i in self.traces and i != addressed and now != self.traces[i]:
                raise Violation("traces_of_other_object_changed",
                                f"the model3d traces of object {i} ({type(o).__name__}) changed although the step "
                                f"{op['op']} addressed object {addressed}", op=op["op"], leaf="model3d_data")
            self.traces[i] = now

    def _check_all(self, op, what="after"):
        M = self.model
        sig = {"op": op["op"], "notation": op.get("notation")}
        self._check_traces(op)
        # 1. own styles
        for i, o in enumerate(self.world.objs):
            own = own_flat(o, i)
            for leaf, want in M.S[i].items():
                if leaf == "model3d_data":
                    continue
                got = own.get(leaf, "<missing>")
                if got != want:
                    raise Violation("own_style", f"object {i} ({M.cls[i]}) style.{leaf} = {got!r}, model {want!r} "
                                    f"({what} {op['op']}/{op.get('notation')})", leaf=_sigleaf(leaf), **sig)
        # 2. defaults
        dfl = flat(self._settings().display.style)
        for k, want in M.D.items():
            if k.endswith("model3d_data"):
                continue
            got = dfl.get(k, "<missing>")
            if got != want:
                raise Violation("defaults", f"defaults.display.style.{k} = {got!r}, model {want!r} "
                                f"({what} {op['op']}/{op.get('notation')})", leaf=_sigleaf(k), **sig)
        extra = [k for k in dfl if k not in M.D and not sm.is_alias(k)]
        if extra:
            raise Violation("defaults", f"unexpected default leaves {extra[:3]}", **sig)
        disp = {k: sm.norm(v) for k, v in self._settings().display.as_dict(flatten=True, separator="_").items()
                if not k.startswith("style_")}
        for k, want in M.display.items():
            if disp.get(k, "<missing>") != want:
                raise Violation("defaults", f"defaults.display.{k} = {disp.get(k)!r}, model {want!r} "
                                f"({what} {op['op']}/{op.get('notation')})", leaf="display." + k, **sig)
        # 3. resolution, with and without show() keywords
        probe = dict((int(k), v) for k, v in (op.get("probe_kw") or {}).items())
        targets = list(enumerate(self.world.objs)) + [(-1, self.markers)]
        for i, o in targets:
            if i == -1:  # temporarily expose the markers model under index -1
                M.S.append(self.markers_S)
                M.cls.append("MagpyMarkers")
            try:
                self._check_resolution(i, o, probe, op, sig, what)
            finally:
                if i == -1:
                    M.S.pop()
                    M.cls.pop()
        # 3b. the resolution seam used by show(): flattened properties of the whole scene
        if self.cfg.get("flatten_every") and self.step % self.cfg["flatten_every"] == 0:
            self._check_flatten(op, sig)

    def _check_resolution(self, i, o, probe, op, sig, what):
        from magpylib._src.style import get_style

        M = self.model
        if True:
            for kw_items in ([], probe.get(i, [])):
                if kw_items == [] and probe.get(i) and self.step % 2:
                    continue  # alternate to bound the cost
                kw = {"style_" + leaf: own(v, leaf) for leaf, v in kw_items}
                show_kw = {leaf: v for leaf, v in kw_items}
                try:
                    with warnings.catch_warnings():
                        warnings.simplefilter("ignore")
                        st = flat(get_style(o, self._settings(), **kw))
                except Exception as e:
                    raise Violation("valid_show_kwarg_rejected", f"resolving the style of object {i} ({M.cls[i]}) with "
                                    f"show keywords {sorted(kw)} raised {type(e).__name__}",
                                    leaf=_sigleaf(kw_items[0][0]) if kw_items else None, **sig) from None
                self.stats["resolutions"] += 1
                if kw_items:
                    self.probe("resolution_with_show_kwarg")
                    if any(M.S[i].get(leaf) is not None for leaf, _ in kw_items):
                        self.probe("show_kwarg_overrides_object_value")
                for leaf in M.S[i]:
                    if (leaf.startswith(SKIP_RESOLVE) and not (leaf == "label" and leaf in show_kw)) or sm.is_alias(leaf):
                        continue
                    want = M.effective(i, leaf, show_kw)
                    got = st.get(leaf, "<missing>")
                    if leaf not in show_kw and M.holds_class_default(i, leaf) and \
                            M.default_for(M.cls[i], leaf) not in (None, M.S[i][leaf]):
                        self.probe("class_construction_value_shadows_a_changed_default")
                    if got != want:
                        src = ("show_kwarg" if leaf in show_kw else "object" if M.S[i].get(leaf) is not None
                               else "defaults")
                        raise Violation("resolution", f"object {i} ({M.cls[i]}) resolved {leaf} = {got!r}, expected "
                                        f"{want!r} from {src} ({what} {op['op']}/{op.get('notation')})",
                                        leaf=_sigleaf(leaf), source=src, **sig)

    def _check_flatten(self, op, sig):
        from magpylib._src.display.traces_utility import get_flatten_objects_properties_recursive

        M = self.model
        tops = [o for o in self.world.objs if o._parent is None]
        probe = dict((int(k), v) for k, v in (op.get("probe_kw") or {}).items())
        kw_items = next((v for v in probe.values() if v), [])
        kw = {"style_" + leaf: own(v, leaf) for leaf, v in kw_items}
        with warnings.catch_warnings():
            warnings.simplefilter("ignore")
            props = get_flatten_objects_properties_recursive(
                *tops, style_kwargs=kw, colorsequence=self._settings().display.colorsequence)
        self.probe("flatten_resolution")
        for i, o in enumerate(self.world.objs):
            if o not in props:
                raise Violation("resolution", f"object {i} missing from flattened properties", **sig)
            st = flat(props[o]["style"])
            show_kw = {leaf: v for leaf, v in kw_items if leaf in M.S[i]}
            for leaf in M.S[i]:
                if leaf.startswith(SKIP_RESOLVE) or sm.is_alias(leaf):
                    continue
                want = M.effective(i, leaf, show_kw)
                if leaf == "color" and want is None:
                    # no colour of its own: "a Collection will apply its color to all children", the top
                    # level objects take theirs from the colour cycle
                    if o._parent is not None and o._parent in props:
                        pc = flat(props[o._parent]["style"]).get("color")
                        if st.get("color") != pc:
                            raise Violation("resolution", f"flattened: object {i} ({M.cls[i]}) has no colour of its "
                                            f"own but shows {st.get('color')!r}, its collection {pc!r}",
                                            leaf="color", source="collection", **sig)
                        self.probe("colour_inherited_from_collection")
                    continue
                got = st.get(leaf, "<missing>")
                if got != want:
                    raise Violation("resolution", f"flattened: object {i} ({M.cls[i]}) {leaf} = {got!r}, expected "
                                    f"{want!r}", leaf=_sigleaf(leaf), source="flatten", **sig)

    # ---------------------------------------------------------------- executing writes
    def _write_obj(self, o, items, notation):
        if notation == "magic_update":
            o.style.update(**{leaf: own(v, leaf) for leaf, v in items})
        elif notation == "nested_update":
            d = nest_items(items)
            keep = copy.deepcopy(d)
            o.style.update(d)
            if d != keep:
                raise Violation("caller_dict_mutated", "style.update(dict) changed the caller's dict", op="obj_set",
                                notation=notation)
        elif notation == "attr":
            for leaf, v in items:
                tgt = o.style
                parts = leaf.split("_")
                for p in parts[:-1]:
                    tgt = getattr(tgt, p)
                if not hasattr(type(tgt), parts[-1]) and not hasattr(tgt, parts[-1]):
                    raise AttributeError(parts[-1])
                setattr(tgt, parts[-1], own(v, leaf))
        elif notation == "assign_dict":
            d = nest_items(items)
            keep = copy.deepcopy(d)
            o.style = d
            if d != keep:
                raise Violation("caller_dict_mutated", "obj.style = dict changed the caller's dict", op="obj_set",
                                notation=notation)
        elif notation == "assign_magic_dict":
            o.style = {leaf: own(v, leaf) for leaf, v in items}
        elif notation == "mixed_update":
            d = nest_items(items[:1])
            keep = copy.deepcopy(d)
            o.style.update(d, **{leaf: own(v, leaf) for leaf, v in items[1:]})
            if d != keep:
                raise Violation("caller_dict_mutated", "style.update(dict, **kwargs) changed the caller's dict",
                                op="obj_set", notation=notation)
        elif notation == "partial_magic":
            d = partial_magic(items)
            keep = copy.deepcopy(d)
            o.style.update(d)
            if d != keep:
                raise Violation("caller_dict_mutated", "style.update(dict) changed the caller's dict", op="obj_set",
                                notation=notation)
        elif notation == "assign_style_object":
            # a style object of the right class: its values are taken over (not the object itself)
            tmp = o.style.copy()
            tmp.update(**{leaf: own(v, leaf) for leaf, v in items})
            o.style = tmp
            if o.style is tmp:
                raise Violation("style_object_kept_by_reference", "obj.style = <style object> kept the caller's object",
                                op="obj_set", notation=notation)
            for leaf, v in items:  # the caller goes on using its object
                others = [x for x in sm.VALID[sm.kind_of(leaf)] if sm.stored(leaf, x) != sm.stored(leaf, v)]
                if others:
                    tmp.update(**{leaf: own(others[0], leaf)})
        elif notation == "assign_substyle_object":
            # a sub-style OBJECT of another pool object - or of the library defaults - is assigned to the sub-style
            # ("dict or `Path` object"), then the leaves below it are written through update(): the donor must
            # not follow.  self._donated records what the donor handed over (for the model).
            import magpylib as magpy

            self._donated = {}
            for top, sub in nest_items(items).items():
                if isinstance(sub, dict) and top != "model3d":
                    donor = None
                    for cand in self.world.objs:
                        if cand is not o and type(getattr(cand.style, top, None)) is type(getattr(o.style, top)):
                            donor = getattr(cand.style, top)
                            break
                    if donor is None:
                        for fam in sm.FAMILIES.get(type(o).__name__, []) + ["base"]:
                            cand = getattr(getattr(magpy.defaults.display.style, fam), top, None)
                            if type(cand) is type(getattr(o.style, top)):
                                donor = cand
                                break
                    if donor is not None:
                        given = {top + "_" + k: sm.norm(v) for k, v in
                                 donor.as_dict(flatten=True, separator="_").items() if not sm.is_alias(top + "_" + k)}
                        setattr(o.style, top, donor)
                        if getattr(o.style, top) is donor:
                            self.probe("substyle_object_kept_by_reference")
                        self._donated.update(given)
                        self.probe("substyle_object_assigned")
                        if len(items[0][0]) % 2:
                            # ... then written leaf by leaf through attributes of the (assigned) sub-style
                            for leaf, v in items:
                                if leaf.split("_")[0] == top:
                                    tgt = o.style
                                    for part in leaf.split("_")[:-1]:
                                        tgt = getattr(tgt, part)
                                    setattr(tgt, leaf.split("_")[-1], own(v, leaf))
                            continue
                o.style.update({top: sub})
        elif notation == "magic_then_dict":
            o.style.update(**magic_then_dict_kwargs(items))
        elif notation == "attr_dict":
            assign_sub_dicts(o.style, items)
        elif notation == "str_shortcut":
            # description / legend given as a plain string = another way of writing their `text` leaf
            for leaf, v in items:
                if leaf in ("description_text", "legend_text") and isinstance(v, str):
                    if self.step % 2:
                        setattr(o.style, leaf.split("_")[0], v)
                    else:
                        o.style.update(**{leaf.split("_")[0]: v})
                else:
                    o.style.update(**{leaf: own(v, leaf)})
        else:
            raise HarnessError(notation)

    def _construct(self, cls, items, notation):
        kw = dict(TM_KW) if cls == "TriangularMesh" else {}
        if notation == "ctor_magic":
            kw.update({"style_" + leaf: own(v, leaf) for leaf, v in items})
        elif notation == "ctor_dict":
            kw["style"] = nest_items(items)
        elif notation == "ctor_mixed":
            kw["style"] = nest_items(items[:1])
            kw.update({"style_" + leaf: own(v, leaf) for leaf, v in items[1:]})
        else:
            raise HarnessError(notation)
        keep = copy.deepcopy(kw.get("style"))
        o = cls_of(cls)(**kw)
        if "style" in kw:
            if kw["style"] != keep:
                raise Violation("caller_dict_mutated", "the constructor changed the caller's style dict",
                                op="new_obj", notation=notation)
            kw["style"].clear()  # the caller re-uses its dict before the (lazily created) style is first used
        for lst in _SCRIBBLE:  # ... and its list values (given as keywords or inside the dict)
            lst.append("scribbled-by-caller")
        _SCRIBBLE.clear()
        if getattr(self, "_defer_style_access", False):
            return o  # the style stays pending: the caller copies the object first
        o.style  # noqa: B018  lazily created style: invalid input surfaces here at the latest
        return o

    def _write_default(self, fam, items, notation):
        import magpylib as magpy

        style = self._settings().display.style
        if notation == "fam_update":
            getattr(style, fam).update(**{leaf: own(v, leaf) for leaf, v in items})
        elif notation == "style_update_nested":
            magpy.defaults.display.style.update({fam: nest_items(items)})
        elif notation == "style_update_magic":
            magpy.defaults.display.style.update(**{f"{fam}_{leaf}": own(v, leaf) for leaf, v in items})
        elif notation == "attr":
            for leaf, v in items:
                tgt = getattr(style, fam)
                parts = leaf.split("_")
                for p in parts[:-1]:
                    tgt = getattr(tgt, p)
                if not hasattr(type(tgt), parts[-1]):
                    raise AttributeError(parts[-1])
                setattr(tgt, parts[-1], own(v, leaf))
        elif notation == "display_update":
            magpy.defaults.display.update(style={fam: nest_items(items)})
        elif notation == "fam_mixed_update":
            d = nest_items(items[:1])
            keep = copy.deepcopy(d)
            getattr(style, fam).update(d, **{leaf: own(v, leaf) for leaf, v in items[1:]})
            if d != keep:
                raise Violation("caller_dict_mutated", "defaults update(dict, **kwargs) changed the caller's dict",
                                op="def_set", notation=notation)
        elif notation == "defaults_update_nested":
            magpy.defaults.update(display={"style": {fam: nest_items(items)}})
        elif notation == "defaults_update_magic":
            magpy.defaults.update(**{f"display_style_{fam}_{leaf}": own(v, leaf) for leaf, v in items})
        elif notation == "defaults_partial_magic":
            # every leaf with its own split between underscore key and nesting, from the top of the defaults tree
            magpy.defaults.update(partial_magic(items, prefix=f"display_style_{fam}_"))
        elif notation == "fam_attr_dict":
            assign_sub_dicts(getattr(style, fam), items)
        elif notation == "fam_assign_dict":
            # the documented second way: magpy.defaults.display.style.magnet = {...}
            setattr(magpy.defaults.display.style, fam, nest_items(items))
        else:
            raise HarnessError(notation)

    def _write_display(self, items, notation):
        import magpylib as magpy

        if notation == "update":
            magpy.defaults.display.update(**{leaf: own(v, leaf) for leaf, v in items})
        elif notation == "attr":
            for leaf, v in items:
                tgt = magpy.defaults.display
                parts = leaf.split("_")
                for p in parts[:-1]:
                    tgt = getattr(tgt, p)
                setattr(tgt, parts[-1], own(v, leaf))
        else:
            raise HarnessError(notation)

    def _guard(self, fn):
        """run a library call; -> 'ok' | 'raised:<Type>'"""
        _SCRIBBLE.clear()
        try:
            with warnings.catch_warnings(), contextlib.redirect_stdout(io.StringIO()):
                warnings.simplefilter("ignore")
                fn()
            return "ok"
        except (HarnessError, Violation):
            raise
        except Exception as e:
            return "raised:" + type(e).__name__
        finally:
            # the caller re-uses its mutable values (lists) after the call: must not reach into any style
            for lst in _SCRIBBLE:
                lst.append("scribbled-by-caller")
            _SCRIBBLE.clear()

    # ---------------------------------------------------------------- invalid variants
    def _invalid_variants(self, op):
        M = self.model
        for var in op.get("invalid", []):
            before = self._state()
            items = [list(x) for x in var["items"]]
            kind = var["kind"]
            if op["op"] == "obj_set":
                o = self.world[op["o"]]
                # (assign_substyle_object is two calls, the first of them valid: its rejected variant is the
                #  second call alone)
                nota = "nested_update" if op["notation"] == "assign_substyle_object" else op["notation"]
                out = self._guard(lambda: self._write_obj(o, items, nota))
            elif op["op"] == "def_set":
                out = self._guard(lambda: self._write_default(op["fam"], items, op["notation"]))
            elif op["op"] == "new_obj" and kind == "style_object":
                # the style *object* of another pool object given as `style`, together with style_ keywords:
                # accepted or rejected - the donor must stay as it is
                donor = self.world[var["donor"]]

                def ctor():
                    kw = dict(TM_KW) if op["cls"] == "TriangularMesh" else {}
                    kw.update({"style_" + leaf: own(v, leaf) for leaf, v in items})
                    cls_of(op["cls"])(style=donor.style, **kw).style  # noqa: B018
                out = self._guard(ctor)
            elif op["op"] == "new_obj":
                out = self._guard(lambda: self._construct(op["cls"], items, op["notation"]))
            elif op["op"] == "disp_set":
                out = self._guard(lambda: self._write_display(items, op["notation"]))
            else:
                continue
            self.stats["variants"] += 1
            after = self._state()
            self.log.add("inv", self.step, kind, op.get("notation"), out, digest(canon(after))[:16])
            self.transition(op["op"], op.get("notation"), kind, out.split(":")[0], var.get("leafkind"))
            sig = {"op": op["op"], "notation": op.get("notation"), "fault": kind}
            if kind == "style_object":
                self.probe("style_object_given_to_constructor")
                if after != before:
                    path = _first_state_diff(before, after)
                    raise Violation("rejected_update_changed_state", f"{op['cls']}(style=<style object of object "
                                    f"{var['donor']}>, style_...) [{out}] changed {path}", leaf=_sigleaf(path), **sig)
                continue
            if out == "ok":
                raise Violation("invalid_accepted", f"{op['op']} via {op.get('notation')} accepted {kind} "
                                f"{items!r}", leaf=_sigleaf(items[-1][0]), **sig)
            self.fault_fired(kind)
            if kind == "partial":
                # [valid leaf, invalid leaf]: the invalid value must not be stored and nobody else may change;
                # the valid leaf holds its old or its new value (the model follows what was stored)
                (vleaf, vval), (bleaf, bval) = items
                tgt_before, tgt_after, others_b, others_a = self._split(op, before, after)
                if others_a != others_b:
                    raise Violation("rejected_update_leaked", f"rejected {op['op']} changed another object or the "
                                    f"defaults", leaf=_sigleaf(bleaf), **sig)
                key_b = (op.get("fam") + "_" if op["op"] == "def_set" else "") + bleaf
                key_v = (op.get("fam") + "_" if op["op"] == "def_set" else "") + vleaf
                if sm.is_alias(bleaf):
                    key_b = (op.get("fam") + "_" if op["op"] == "def_set" else "") + sm.alias_target(bleaf)
                if tgt_after.get(key_b) == sm.norm(bval) and tgt_before.get(key_b) != sm.norm(bval):
                    raise Violation("invalid_value_stored", f"{bleaf} = {bval!r} stored by a rejected update",
                                    leaf=_sigleaf(bleaf), **sig)
                for k in tgt_after:
                    if k not in (key_v, key_b) and tgt_after[k] != tgt_before.get(k):
                        raise Violation("rejected_update_changed_other_leaf", f"{k} changed by a rejected update",
                                        leaf=_sigleaf(k), **sig)
                got = tgt_after.get(key_v)
                if got not in (tgt_before.get(key_v), sm.stored(vleaf, vval)):
                    raise Violation("rejected_update_changed_other_leaf", f"{vleaf} = {got!r} after a rejected update",
                                    leaf=_sigleaf(vleaf), **sig)
                if op["op"] == "obj_set":
                    M.set_obj(op["o"] % len(self.world.objs), vleaf, got)
                elif op["op"] == "def_set":
                    M.set_default(op["fam"], vleaf, got)
                self.probe("partial_update_applied" if got == sm.stored(vleaf, vval) and got != tgt_before.get(key_v)
                           else "partial_update_not_applied")
            elif after != before:
                path = _first_state_diff(before, after)
                raise Violation("rejected_update_changed_state", f"rejected {op['op']} via {op.get('notation')} "
                                f"[{kind} {items!r}] changed {path}", leaf=_sigleaf(path), **sig)

    def _split(self, op, before, after):
        """(target before, target after, everything-else before, everything-else after)"""
        if op["op"] == "obj_set":
            i = op["o"] % len(self.world.objs)
            ob = {k: v for k, v in before.items()}
            oa = {k: v for k, v in after.items()}
            tb, ta = before["objs"][i], after["objs"][i]
            ob["objs"] = before["objs"][:i] + before["objs"][i + 1:]
            oa["objs"] = after["objs"][:i] + after["objs"][i + 1:]
            return tb, ta, ob, oa
        if op["op"] == "def_set":
            ob = {k: v for k, v in before.items() if k != "defaults"}
            oa = {k: v for k, v in after.items() if k != "defaults"}
            return before["defaults"], after["defaults"], ob, oa
        return {}, {}, before, after

    # ---------------------------------------------------------------- ops
    def apply(self, op):
        M = self.model
        w = self.world
        k = op["op"]
        self._invalid_variants(op)
        out = "ok"
        if k == "obj_set":
            i = op["o"] % len(w.objs)
            o = w.objs[i]
            self._donated = {}
            out = self._guard(lambda: self._write_obj(o, op["items"], op["notation"]))
            if out == "ok":
                for leaf, v in self._donated.items():
                    if leaf in M.S[i]:
                        M.S[i][leaf] = v
                for leaf, v in op["items"]:
                    prev = M.S[i].get(sm.alias_target(leaf) if sm.is_alias(leaf) else leaf)
                    if prev is not None:
                        self.probe("leaf_rewritten")
                    if sm.is_alias(leaf):
                        self.probe("alias_written")
                    M.set_obj(i, leaf, v)
                tw = op.get("twin")
                if tw:
                    # the same leaf of another object gets a colour tuple that compares equal in Python but means
                    # another colour ((0.0, 0.0, 1.0, 1) vs (0, 0, 1, 1.0)): value-keyed caches must tell them apart
                    j = tw["o"] % len(w.objs)
                    out2 = self._guard(lambda: self._write_obj(w.objs[j], tw["items"], "magic_update"))
                    if out2 == "ok":
                        for leaf, v in tw["items"]:
                            if leaf in M.S[j]:
                                M.set_obj(j, leaf, v)
                        self.probe("equal_but_different_colour_tuples_in_one_run")
                    else:
                        out = out2
        elif k == "new_obj":
            holder = {}
            self._defer_style_access = bool(op.get("then_copy"))
            try:
                out = self._guard(lambda: holder.setdefault("o", self._construct(op["cls"], op["items"], op["notation"])))
            finally:
                self._defer_style_access = False
            if out == "ok":
                o = holder["o"]
                w.register(o)
                i = self._register_model(o)
                for leaf, v in op["items"]:
                    M.set_obj(i, leaf, v)
                if op.get("then_copy"):
                    # copy while the style of the original is still pending (never accessed)
                    out = self._guard(lambda: holder.setdefault("c", o.copy()))
                    if out == "ok":
                        c = holder["c"]
                        w.register(c)
                        j = self._register_model(c)
                        M.S[j] = dict(M.S[i])
                        M.S[j]["label"] = own_flat(c, j).get("label")  # automatically iterated label
                        self.probe("copy_of_object_with_pending_style")
        elif k == "def_set":
            out = self._guard(lambda: self._write_default(op["fam"], op["items"], op["notation"]))
            if out == "ok":
                for leaf, v in op["items"]:
                    M.set_default(op["fam"], leaf, v)
                self.probe("default_written." + ("base" if op["fam"] == "base" else "family"))
        elif k == "disp_set":
            out = self._guard(lambda: self._write_display(op["items"], op["notation"]))
            if out == "ok":
                for leaf, v in op["items"]:
                    M.display[leaf] = sm.norm(v)
                self.probe("display_setting_written")
        elif k == "reset":
            import magpylib as magpy

            dirty = M.D != sm.load_frozen_defaults() or M.display != sm.load_frozen_display()
            out = self._guard(lambda: magpy.defaults.reset())
            M.reset_defaults()
            if dirty:
                self.probe("reset_after_defaults_changed")
        elif k == "add_trace":
            i = op["o"] % len(w.objs)
            if op.get("instance"):
                # one Trace3d *object* of the caller given to two objects (three ways): later edits through one
                # object must not show on the other
                from magpylib.graphics import Trace3d

                def give():
                    t = Trace3d(backend="generic", constructor="Scatter3d",
                                kwargs={"x": [0, op["x"]], "y": [0, 1], "z": [0, 0], "mode": "lines"})
                    for o in (w.objs[i], w.objs[op["also"] % len(w.objs)]):
                        how = op["instance"]
                        if how == "add_trace":
                            o.style.model3d.add_trace(t)
                        elif how == "data":
                            o.style.model3d.data = list(o.style.model3d.data) + [t]
                        else:
                            o.style = {"model3d": {"data": list(o.style.model3d.data) + [t]}}
                out = self._guard(give)
                self.probe("trace_object_given_to_two_objects")
                self.traces.pop(op["also"] % len(w.objs), None)  # addressed as well
            else:
                out = self._guard(lambda: w.objs[i].style.model3d.add_trace(
                    backend="generic", constructor="Scatter3d",
                    kwargs={"x": [0, op["x"]], "y": [0, 1], "z": [0, 0], "mode": "lines"}))
        elif k == "trace_edit":
            i = op["o"] % len(w.objs)
            data = w.objs[i].style.model3d.data
            if data:
                def edit():
                    t = data[op.get("which", 0) % len(data)]
                    how = op.get("how", "show")
                    if how == "show":
                        t.show = not t.show
                    elif how == "scale":
                        t.scale = op.get("value", 2)
                    elif how == "kwargs":
                        t.kwargs["x"][0] = op.get("value", 2)
                        t.kwargs["name"] = "edited"
                    else:
                        t.update(scale=op.get("value", 3))
                out = self._guard(edit)
                self.probe("trace_edited_in_place")
        elif k == "defaults_copy_edit":
            # magpy.defaults.copy() / display.copy() / display.style.copy(): independent of the live defaults
            import magpylib as magpy

            def run():
                tgt = {"defaults": magpy.defaults, "display": magpy.defaults.display,
                       "style": magpy.defaults.display.style}[op.get("which", "style")]
                c = tgt.copy()
                sub = c if op.get("which") == "style" else (c.display.style if op.get("which") == "defaults"
                                                              else c.style)
                fam = getattr(sub, op["fam"])
                fam.update(**{leaf: own(v, leaf) for leaf, v in op["items"]})
            out = self._guard(run)
            self.probe("defaults_copy_edited")
        elif k == "style_copy_edit":
            # obj.style.copy() is an independent style: changing the copy (leaves, traces) must not reach obj
            i = op["o"] % len(w.objs)

            def run():
                s2 = w.objs[i].style.copy()
                s2.update(**{leaf: own(v, leaf) for leaf, v in op["items"]})
                for t in s2.model3d.data:
                    t.show = not t.show
                    t.kwargs["name"] = "edited-on-the-copy"
                s2.model3d.add_trace(backend="generic", constructor="Scatter3d", kwargs={"x": [0, 1], "y": [0, 1],
                                                                                           "z": [0, 1]})
            out = self._guard(run)
            self.probe("style_copy_edited")
        elif k == "style_reset":
            import magpylib as magpy

            out = self._guard(lambda: magpy.defaults.display.style.reset())
            M.D = sm.load_frozen_defaults()
        elif k == "copy":
            i = op["o"] % len(w.objs)
            holder = {}
            out = self._guard(lambda: holder.setdefault("o", w.objs[i].copy()))
            if out == "ok":
                new = holder["o"]
                first = w.register_tree(new)
                for j in range(first, len(w.objs)):
                    src = None
                    # model of a copied object = model of its original (label excepted)
                    mi = self._register_model(w.objs[j])
                    M.S[mi] = dict(flat(w.objs[j].style))  # labels/children: take as stored ...
                    M.S[mi].pop("model3d_data", None)
                    M.S[mi] = {kk: vv for kk, vv in M.S[mi].items() if not sm.is_alias(kk)}
                # ... but the copy of the addressed object must equal the original's model (label excepted)
                for leaf, want in M.S[i].items():
                    if leaf in ("label", "model3d_data"):
                        continue
                    if M.S[first].get(leaf) != want:
                        raise Violation("copy_style_differs", f"copy has {leaf} = {M.S[first].get(leaf)!r}, original "
                                        f"{want!r}", op="copy", leaf=_sigleaf(leaf))
        elif k == "to_tricoll":
            # an object derived from another one: TriangularMesh.to_TriangleCollection() hands the mesh style
            # to the new collection - afterwards the two styles must be independent
            i = op["o"] % len(w.objs)
            mesh = w.objs[i]
            if type(mesh).__name__ == "TriangularMesh":
                holder = {}
                out = self._guard(lambda: holder.setdefault("o", mesh.to_TriangleCollection()))
                if out == "ok":
                    new = holder["o"]
                    first = w.register_tree(new)
                    for j in range(first, len(w.objs)):
                        mi = self._register_model(w.objs[j])
                        if j == first:
                            for leaf in M.S[mi]:
                                if leaf in M.S[i] and leaf != "model3d_data":
                                    M.S[mi][leaf] = M.S[i][leaf]
                        else:
                            M.S[mi] = {kk: vv for kk, vv in own_flat(w.objs[j], j).items() if kk != "model3d_data"}
                    self.probe("derived_object_created")
        elif k == "children_styles":
            i = op["o"] % len(w.objs)
            c = w.objs[i]
            if hasattr(c, "_children"):
                def call():
                    if op.get("notation") == "dict_and_kwargs":
                        d = {leaf: own(v, leaf) for leaf, v in op["items"][:1]}
                        keep = copy.deepcopy(d)
                        c.set_children_styles(d, **{leaf: own(v, leaf) for leaf, v in op["items"][1:]})
                        if d != keep:
                            raise Violation("caller_dict_mutated", "set_children_styles(dict, **kwargs) changed the "
                                            "caller's dict", op="children_styles", notation="dict_and_kwargs")
                    else:
                        c.set_children_styles(**{leaf: own(v, leaf) for leaf, v in op["items"]})

                out = self._guard(call)
                if out == "ok":
                    for d in _descendants(c):
                        j = w.index(d)
                        for leaf, v in op["items"]:
                            # (the documented example uses the deprecated alias: magnetization_size=0.5)
                            if leaf in M.S[j] or (sm.is_alias(leaf) and sm.alias_target(leaf) in M.S[j]):
                                M.set_obj(j, leaf, v)
        elif k == "show":
            import magpylib as magpy

            objs = [o for o in w.objs if o._parent is None][:3]
            kw = {"style_" + leaf: own(v, leaf) for leaf, v in op.get("items", [])}
            sd = keep_sd = None
            if op.get("style_dict") and op.get("items"):
                sd = nest_items(op["items"])  # show(..., style={...}): the caller's dictionary
                keep_sd = copy.deepcopy(sd)
                kw = {"style": sd}
            tr = None
            if op.get("boom"):
                _BOOM["calls"] = 0
                tr = objs[0].style.model3d.add_trace(backend="generic", constructor="Scatter3d",
                                                     kwargs={"x": [0, 1], "y": [0, 1], "z": [0, 1]}, updatefunc=_boom)
            ctx = bool(op.get("ctx")) and not op.get("boom")
            if ctx:
                # show_context blocks (wave 10, C20_m): the keywords of one block are effective inside it and gone
                # afterwards - the rendered figure without show keywords is the same before and after
                def _fig(**k):
                    with magpy.show_context(backend="plotly", return_fig=True, **k) as c:
                        magpy.show(*objs)
                    return c.show_return_value

                ref_ctx = _fig_enc(_fig())
                ref_plain = _fig_enc(magpy.show(*objs, backend="plotly", return_fig=True))
            try:
                if ctx:
                    got = {}
                    out = self._guard(lambda: got.setdefault("fig", _fig(**kw)))
                else:
                    out = self._guard(lambda: magpy.show(*objs, backend="plotly", return_fig=True, **kw))
            finally:
                if tr is not None:
                    objs[0].style.model3d.data.pop()
            if ctx and out == "ok":
                for leaf, v in op.get("items", []):
                    if leaf == "opacity":
                        bad = [(t.type, t.opacity) for t in got["fig"].data if t.opacity != v]
                        if bad:
                            raise Violation("show_kwarg_not_effective", f"show_context(style opacity={v!r}) drew "
                                            f"{bad[:3]!r}", op="show", leaf="opacity", source="show")
                if _fig_enc(_fig()) != ref_ctx:
                    raise Violation("show_kwargs_leak", f"the figure of a show_context block without keywords differs "
                                    f"after a block with {sorted(kw)!r}", op="show", source="show")
                if _fig_enc(magpy.show(*objs, backend="plotly", return_fig=True)) != ref_plain:
                    raise Violation("show_kwargs_leak", f"the figure of show() without style keywords differs after a "
                                    f"show_context block with {sorted(kw)!r}", op="show", source="show")
                self.probe("show_context_blocks")
            if sd is not None and sd != keep_sd:
                raise Violation("caller_dict_mutated", "show(style={...}) changed the caller's dict", op="show")
            self.probe("real_show_call" + ("_updatefunc_raises" if op.get("boom") and out != "ok" else ""))
            if op.get("boom") and out != "ok":
                self.fault_fired("updatefunc_raise")
            if not op.get("boom") and out != "ok":
                raise Violation("show_failed", f"show() {out}", op="show")
        else:
            raise HarnessError(k)
        if out != "ok" and k != "show":
            raise Violation("valid_write_rejected", f"{k} via {op.get('notation')} items {op.get('items')!r} {out}",
                            op=k, notation=op.get("notation"),
                            leaf=_sigleaf(op["items"][0][0]) if op.get("items") else None)
        self.stats["ops"] += 1
        self.stats["op." + k + ("." + op["notation"] if op.get("notation") else "")] += 1
        st = self._state()
        self.log.add("op", self.step, k, op.get("notation"), out, digest(canon(st))[:16])
        for leaf, _v in op.get("items", []) or []:
            self.transition(k, op.get("notation"), op.get("fam"), sm.kind_of(leaf) if k != "disp_set" else leaf, out)
        if not op.get("items"):
            self.transition(k, None, None, None, out)
        self._check_all(op)

    def epilogue(self):
        import magpylib as magpy

        # fault-free: a style write-and-resolve on the first object, then reset restores every default
        op = {"op": "obj_set", "o": 0, "notation": "magic_update", "items": [["opacity", 0.5]]}
        self.step += 1
        self.apply(op)
        op = {"op": "reset"}
        self.step += 1
        self.apply(op)


def _descendants(c):
    out = []
    for ch in c._children:
        out.append(ch)
        if hasattr(ch, "_children"):
            out.extend(_descendants(ch))
    return out


def _fig_enc(fig):
    """a rendered plotly figure as canonical text (arrays as lists)"""
    return json.dumps(fig.to_plotly_json(), default=lambda a: np.asarray(a).tolist(), sort_keys=True)


def _sigleaf(leaf):
    """signature granularity: the leaf name without a family prefix or path indices"""
    if leaf is None:
        return None
    leaf = str(leaf)
    for fam in sm.DEFAULT_FAMILIES:
        if leaf.startswith(fam + "_"):
            leaf = leaf[len(fam) + 1:]
            break
    return leaf


def _first_state_diff(a, b):
    for sec in ("defaults", "display", "markers"):
        for k in a[sec]:
            if a[sec][k] != b[sec].get(k):
                return k
    for i, (x, y) in enumerate(zip(a["objs"], b["objs"])):
        for k in x:
            if x[k] != y.get(k):
                return k
    return "?"


# ----------------------------------------------------------------------------- generator
class Sim:
    id = ID
    level = LEVEL
    runs = {"quick": 1000}
    budget = {"thorough": 600}
    chunk = {"quick": 10, "thorough": 10}
    cross_n = 12
    rule = ("One evaluation = one seeded session: 2-5 objects over 13 classes (all style families; one collection with "
            "children) + a markers object, and a history of 3-10 (quick) / 3-24 (thorough) ops: write 1-3 leaves on "
            "an object (5 notations + 3 constructor notations, incl. the deprecated alias magnetization_size), on a "
            "family default or the base default (5 notations), defaults.reset(), copy(), set_children_styles, and "
            "(rare) a real show(backend='plotly') incl. one whose updatefunc raises. After every step, for every "
            "object and every leaf: own style == model, defaults == model (after reset: the frozen documented "
            "defaults), resolved style (get_style with/without show kwargs; get_flatten_objects_properties_recursive) "
            "== first non-None of show kwarg, own, family defaults (specific first), base. Before every write its "
            "invalid variants (unknown leaf, invalid value per leaf kind, [valid, invalid] pair) must be rejected, "
            "store nothing invalid and change nobody else. distinct_nontrivial counts distinct (op, notation, family, "
            "leaf kind, outcome) and (op, notation, invalid kind, outcome, leaf kind) tuples.")
    real_components = ["magpylib (all of it, from the working tree under test) incl. the process-global defaults",
                       "plotly backend for the rare real show() op", "numpy", "scipy"]
    stub_components = ["invalid style names/values injected into writes", "a model3d updatefunc that raises"]
    assumptions = ["interpreter runs without -O (most style validators are assert statements)",
                   "frozen copy of the documented defaults (simsession/models/defaults_frozen.json) is the reference "
                   "for reset()", "orientation.offset: only non-numbers count as invalid (documentation inconsistent)",
                   "label and model3d.* are object-level only: checked for non-leak, not for precedence",
                   "a constructor given an invalid style may raise at construction or at the first style access"]

    def new_config(self, rng, tier):
        thorough = tier == "thorough"
        return {
            "tier": tier,
            "n_ops": rng.randint(3, 24 if thorough else 10),
            "n_obj": rng.randint(2, 5),
            "classes": [c for c in OBJ_CLASSES if rng.random() < 0.5] or ["Cuboid"],
            "ops": [o for o in ["obj_set", "obj_set", "def_set", "def_set", "reset", "copy", "new_obj",
                                "children_styles", "disp_set"] if rng.random() < 0.75] or ["obj_set"],
            "obj_notations": [n for n in OBJ_NOTATIONS if rng.random() < 0.7] or ["magic_update"],
            "def_notations": [n for n in DEF_NOTATIONS if rng.random() < 0.7] or ["fam_update"],
            "invalid": rng.random() < 0.7,
            "p_probe": rng.choice([0.3, 0.6]),
            "flatten_every": rng.choice([0, 2, 3]),
            "p_show": (0.05 if thorough else 0.02) if rng.random() < 0.7 else (0.15 if thorough else 0.06),
            "p_alias": rng.choice([0.0, 0.1, 0.3]),
            "p_colorform": rng.choice([0.0, 0.3, 0.6]),
            "p_trace": rng.choice([0.0, 0.1, 0.2]),
        }

    def new_world_spec(self, rng, cfg):
        objs = []
        for _ in range(cfg["n_obj"]):
            cls = rng.choice(cfg["classes"])
            s = {"cls": cls, "kw": dict(TM_KW) if cls == "TriangularMesh" else {}}
            objs.append(s)
        leaves = [i for i, o in enumerate(objs) if o["cls"] != "Collection"]
        if rng.random() < 0.6 and leaves:
            k = rng.randint(1, min(3, len(leaves)))
            objs.append({"cls": "Collection", "kw": {}, "children": rng.sample(leaves, k)})
        return {"objects": objs}

    def session(self, spec, cfg):
        return C20Session(spec, cfg)

    # -- leaf/value selection
    @staticmethod
    def _leaves(keys):
        return [k for k in keys if sm.kind_of(k) not in (None, "data")]

    def _items(self, rng, cfg, leaves, prefer=(), none_ok=False):
        n = rng.choice([1, 1, 2, 3])
        items = []
        used = set()
        for _ in range(n):
            pool = [x for x in prefer if x in leaves] if (prefer and rng.random() < 0.5) else leaves
            pool = pool or leaves
            if items and rng.random() < 0.4:
                # siblings / cousins of a leaf already in this write: shared key prefixes in one update
                first = items[0][0].split("_")
                sib = [x for x in leaves if x.split("_")[:1] == first[:1] and x != items[0][0]]
                sib2 = [x for x in sib if x.split("_")[:len(first) - 1] == first[:-1]]
                pool = sib2 if (sib2 and rng.random() < 0.5) else (sib or pool)
            leaf = rng.choice(pool)
            tgt = sm.alias_target(leaf) if sm.is_alias(leaf) else leaf
            if tgt in used:
                continue
            if sm.is_alias(leaf) and rng.random() >= cfg["p_alias"]:
                leaf = tgt
            used.add(tgt)
            val = rng.choice(sm.VALID[sm.kind_of(leaf)])
            if sm.kind_of(leaf) == "color" and rng.random() < cfg.get("p_colorform", 0.0):
                val = rng.choice(sm.COLOR_FORMS)[0]  # int tuple, float tuple, short name, upper-case hex, rgb()
            # (showdefault is a strict bool; the deprecated alias magnetization.size ignores None by design)
            if none_ok and leaf != "model3d_showdefault" and not sm.is_alias(leaf) and rng.random() < 0.12:
                val = None  # un-setting a leaf: the next layer shows through again
            items.append([leaf, val])
        # the deprecated alias and its target, written in either order across steps
        al = [x for x in leaves if sm.is_alias(x)]
        if al and rng.random() < cfg["p_alias"]:
            a = rng.choice(al)
            pick = a if rng.random() < 0.5 else sm.alias_target(a)
            if sm.alias_target(a) not in used:
                items.append([pick, rng.choice(sm.VALID["posnum"])])
        return items

    @staticmethod
    def _same_leaf_twice(rng, items):
        """the same leaf given twice in ONE call, in two notations (first item: dictionary resp. first keyword,
        second item: the other notation): the later one wins"""
        leaf, val = items[0]
        if sm.is_alias(leaf):
            return items
        others = [v for v in sm.VALID[sm.kind_of(leaf)] if v != val]
        if not others:
            return items
        return [[leaf, val], [leaf, rng.choice(others)]] + [it for it in items[1:] if it[0] != leaf]

    def _invalid(self, rng, items, leaves):
        out = [{"kind": "bad_leaf", "items": [[rng.choice(["bogus", "path_bogus", "colour", "path_line_widht", "copy",
                                                           "update", "path_update", "as_dict", "path_copy"]), 1]]}]
        leaf, val = items[0]
        inv = sm.INVALID.get(sm.kind_of(leaf))
        if inv:
            bad = rng.choice(inv)
            out.append({"kind": "bad_value", "items": [[leaf, bad]], "leafkind": sm.kind_of(leaf)})
            others = [x for x in leaves if x != leaf and not sm.is_alias(x) and
                      (sm.alias_target(leaf) if sm.is_alias(leaf) else leaf) != x]
            if others:
                v = rng.choice(others)
                out.append({"kind": "partial", "items": [[v, rng.choice(sm.VALID[sm.kind_of(v)])], [leaf, bad]],
                            "leafkind": sm.kind_of(leaf)})
        return out

    def _probe_kw(self, rng, cfg, sess):
        out = {}
        M = sess.model
        for i in range(len(M.S)):
            if rng.random() < cfg["p_probe"]:
                leaves = [k for k in self._leaves(M.S[i]) if (not k.startswith(SKIP_RESOLVE) or k == "label")
                          and not sm.is_alias(k)]
                if leaves:
                    leaf = rng.choice(leaves)
                    out[str(i)] = [[leaf, rng.choice(sm.VALID[sm.kind_of(leaf)])]]
        return out

    def gen_op(self, rng, cfg, sess):
        M = sess.model
        w = sess.world
        n = len(w.objs)
        kind = rng.choice(cfg["ops"])
        written_obj = [k for s in M.S for k, v in s.items() if v is not None]
        if rng.random() < cfg["p_show"]:
            kind = "show"
        if rng.random() < cfg.get("p_trace", 0.0):
            with_tr = [i for i, o in enumerate(w.objs) if getattr(o, "_style", None) is not None
                       and o._style.model3d.data]
            if with_tr and rng.random() < 0.6:
                op = {"op": "trace_edit", "o": rng.choice(with_tr), "which": rng.randrange(3),
                      "how": rng.choice(["show", "scale", "kwargs", "update"]), "value": rng.randint(2, 9)}
            else:
                op = {"op": "add_trace", "o": rng.randrange(n), "x": rng.randint(1, 5)}
                if n > 1 and rng.random() < 0.4:
                    op["instance"] = rng.choice(["add_trace", "data", "assign_dict"])
                    op["also"] = rng.choice([j for j in range(n) if j != op["o"]])
            op["probe_kw"] = self._probe_kw(rng, cfg, sess)
            return op
        if rng.random() < 0.03:
            fam = rng.choice(sm.DEFAULT_FAMILIES)
            fl = [k[len(fam) + 1:] for k in M.D if k.startswith(fam + "_")]
            items = [it for it in self._items(rng, cfg, self._leaves(fl)) if not sm.is_alias(it[0])]
            op = {"op": "defaults_copy_edit", "fam": fam, "items": items,
                  "which": rng.choice(["defaults", "display", "style"])}
            op["probe_kw"] = self._probe_kw(rng, cfg, sess)
            return op
        if rng.random() < 0.04:
            o = rng.randrange(n)
            items = self._items(rng, cfg, self._leaves(M.S[o]))
            items = [it for it in items if not sm.is_alias(it[0])]
            op = {"op": "style_copy_edit", "o": o, "items": items}
            op["probe_kw"] = self._probe_kw(rng, cfg, sess)
            return op
        meshes = [i for i, o in enumerate(w.objs) if type(o).__name__ == "TriangularMesh"]
        if meshes and n <= 10 and rng.random() < 0.08:
            op = {"op": "to_tricoll", "o": rng.choice(meshes)}
            op["probe_kw"] = self._probe_kw(rng, cfg, sess)
            return op
        if kind in ("copy", "new_obj") and n > 10:
            kind = "obj_set"
        if kind == "obj_set":
            o = rng.randrange(n)
            leaves = self._leaves(M.S[o]) + [k for k in ("magnetization_size",)
                                             if "magnetization_arrow_size" in M.S[o]]
            items = self._items(rng, cfg, leaves, prefer=[k for k, v in M.S[o].items() if v is not None], none_ok=True)
            notation = rng.choice(cfg["obj_notations"])
            if notation == "str_shortcut":
                tl = rng.choice(["description_text", "legend_text"])
                items = [it for it in items if it[0] != tl] + [[tl, rng.choice(sm.VALID["text"])]]
            if notation in ("mixed_update", "magic_then_dict") and rng.random() < 0.35:
                items = self._same_leaf_twice(rng, items)
            op = {"op": "obj_set", "o": o, "notation": notation, "items": items}
            # (a list of pairs, not a dict: these tuples compare - and hash - equal)
            twins = [([0.0, 0.0, 1.0, 1], [0, 0, 1, 1.0]), ([0, 0, 1, 1.0], [0.0, 0.0, 1.0, 1]),
                     ([0, 0, 1, 1], [0.0, 0.0, 1.0, 1]), ([0, 0, 1], [0.0, 0.0, 1.0]), ([0.0, 0.0, 1.0], [0, 0, 1]),
                     ([1, 0, 0], [1.0, 0.0, 0.0]), ([1.0, 0.0, 0.0], [1, 0, 0])]
            for leaf, v in items:
                if isinstance(v, list) and not sm.is_alias(leaf):
                    tv = next((t for k, t in twins if k == v and [type(x) for x in k] == [type(x) for x in v]), None)
                    others = [j for j in range(n) if j != o and leaf in M.S[j]]
                    if tv is not None and others:
                        op["twin"] = {"o": rng.choice(others), "items": [[leaf, tv]]}
                        break
            if cfg["invalid"]:
                op["invalid"] = self._invalid(rng, items, self._leaves(M.S[o]))
        elif kind == "new_obj":
            cls = rng.choice(cfg["classes"])
            fresh = flat(cls_of(cls)._style_class())
            leaves = self._leaves(fresh) + [k for k in ("magnetization_size",) if "magnetization_arrow_size" in fresh]
            items = self._items(rng, cfg, leaves)
            op = {"op": "new_obj", "cls": cls, "notation": rng.choice(CTOR_NOTATIONS), "items": items}
            if op["notation"] == "ctor_mixed" and rng.random() < 0.35:
                op["items"] = items = self._same_leaf_twice(rng, items)
            if rng.random() < 0.25:
                op["then_copy"] = True
            if cfg["invalid"]:
                op["invalid"] = [v for v in self._invalid(rng, items, self._leaves(fresh)) if v["kind"] != "partial"]
                if rng.random() < 0.3:
                    op["invalid"].append({"kind": "style_object", "donor": rng.randrange(n),
                                          "items": [it for it in items if not sm.is_alias(it[0])][:2]})
        elif kind == "def_set":
            fam = rng.choice(sm.DEFAULT_FAMILIES)
            fl = [k[len(fam) + 1:] for k in M.D if k.startswith(fam + "_")]
            leaves = self._leaves(fl)
            if fam in ("magnet", "triangle"):
                leaves = leaves + ["magnetization_size"]
            # aim at leaves that objects have not set themselves and at ones they have
            # (no None here: un-setting a *default* leaves no value in any layer for leaves without a base
            #  default, e.g. dipole.size, and the drawing code is entitled to one - a soak run showed show() raising
            #  TypeError after `defaults.display.style.dipole.size = None`; that is the user removing a required
            #  default, not a property violation.  Objects do un-set their own leaves: obj_set.)
            items = self._items(rng, cfg, leaves, prefer=[k for k in written_obj if k in leaves])
            op = {"op": "def_set", "fam": fam, "notation": rng.choice(cfg["def_notations"]), "items": items}
            if cfg["invalid"]:
                op["invalid"] = self._invalid(rng, items, self._leaves(fl))
        elif kind == "disp_set":
            leaf = rng.choice(sorted(sm.DISPLAY_VALID))
            op = {"op": "disp_set", "notation": rng.choice(["update", "attr"]),
                  "items": [[leaf, rng.choice(sm.DISPLAY_VALID[leaf])]]}
            if cfg["invalid"] and leaf in sm.DISPLAY_INVALID:
                op["invalid"] = [{"kind": "bad_value", "items": [[leaf, rng.choice(sm.DISPLAY_INVALID[leaf])]],
                                  "leafkind": "display"}]
        elif kind == "reset":
            op = {"op": "reset"} if rng.random() < 0.7 else {"op": "style_reset"}
        elif kind == "copy":
            op = {"op": "copy", "o": rng.randrange(n)}
        elif kind == "children_styles":
            colls = w.colls()
            if not colls:
                return self.gen_op(rng, dict(cfg, ops=["obj_set"]), sess)
            leaf = rng.choice(["path_line_width", "opacity", "color", "magnetization_show",
                               "magnetization_color_north", "size", "arrow_width", "path_marker_symbol",
                               "arrow_size", "line_width", "pixel_size", "pivot", "magnetization_arrow_width",
                               "orientation_size", "description_show", "legend_show", "path_frames",
                               "magnetization_color_mode", "mesh_grid_show", "sizemode", "magnetization_size"])
            op = {"op": "children_styles", "o": rng.choice(colls),
                  "items": [[leaf, rng.choice(sm.VALID[sm.kind_of(leaf)])]]}
            if rng.random() < 0.4:
                leaf2 = rng.choice([x for x in ["path_line_width", "opacity", "color", "path_marker_symbol"] if x != leaf])
                op["items"].append([leaf2, rng.choice(sm.VALID[sm.kind_of(leaf2)])])
                op["notation"] = "dict_and_kwargs"
        elif kind == "show":
            leaf = rng.choice(["opacity", "path_line_width", "color"])
            op = {"op": "show", "items": [[leaf, rng.choice(sm.VALID[sm.kind_of(leaf)])]] if rng.random() < 0.7 else [],
                  "boom": rng.random() < 0.3, "style_dict": rng.random() < 0.4, "ctx": rng.random() < 0.5}
        else:
            raise HarnessError(kind)
        op["probe_kw"] = self._probe_kw(rng, cfg, sess)
        return op

    def simplify_op(self, op):
        if op.get("invalid"):
            yield {k: v for k, v in op.items() if k != "invalid"}
            if len(op["invalid"]) > 1:
                for v in op["invalid"]:
                    yield dict(op, invalid=[v])
        if op.get("probe_kw"):
            yield dict(op, probe_kw={})
            if len(op["probe_kw"]) > 1:
                for k, v in op["probe_kw"].items():
                    yield dict(op, probe_kw={k: v})
        items = op.get("items")
        if items and len(items) > 1:
            for j in range(len(items)):
                yield dict(op, items=items[:j] + items[j + 1:])
        if op.get("notation") and op["op"] == "obj_set" and op["notation"] != "magic_update":
            yield dict(op, notation="magic_update")
        if op.get("notation") and op["op"] == "def_set" and op["notation"] != "fam_update":
            yield dict(op, notation="fam_update")

    def simplify_spec(self, spec, ops):
        objs = spec["objects"]
        if len(objs) > 1 and not objs[-1].get("children"):
            yield {"objects": objs[:-1]}
        for i, o in enumerate(objs):
            if o.get("children"):
                c = list(objs)
                c[i] = {k: v for k, v in o.items() if k != "children"}
                yield {"objects": c}

    def simplify_cfg(self, cfg):
        if cfg.get("flatten_every"):
            yield dict(cfg, flatten_every=0)
