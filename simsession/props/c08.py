"""C08 — field computation never changes objects or inputs, even when it fails (DESIGN.md §3 C08).

Level: fault_enumeration — for every sampled target call, every reachable crash site
(named fault point x flavour, every callback invocation x failure mode, environment
escalations) is exercised; after each, the world and all caller arrays must be bitwise what
they were, and the same call with the fault disarmed must return the baseline result bitwise.
"""
from __future__ import annotations

import copy
import random
import sys
import warnings

import numpy as np
from scipy.spatial.transform import Rotation as R

from .. import faults, gen
from ..core import HarnessError, Session, Violation, canon
from ..snapshot import enc, first_diff, sdigest, snap_world
from ..world import World, rot_from

ID = "C08"
LEVEL = "fault_enumeration"

FIELDS = ["B", "H", "J", "M"]
CB_MODES = ["raise", "none", "shape", "type", "scalar", "mutate"]
HOOK_FLAVOURS = ["mem", "int"]
AGG_GOOD = ["mean", "min", "max", "sum", "median", "std", "prod", "ptp" if hasattr(np, "ptp") else "max"]
AGG_LATE = ["argmax", "argmin", "nanargmax"]  # pass the up-front probe, fail on the tuple axis
AGG_BAD = ["bogus_name", "cumsum", "linalg"]


def pick_agg(rng):
    r = rng.random()
    if r < 0.6:
        return None
    if r < 0.92:
        return rng.choice(AGG_GOOD)
    if r < 0.97:
        return rng.choice(AGG_LATE)
    return rng.choice(AGG_BAD)
DICT_KW = {
    "Cuboid": lambda rng: {"polarization": gen.nz_vec3(rng), "dimension": [gen.pos_dim(rng) for _ in range(3)]},
    "Cylinder": lambda rng: {"polarization": gen.nz_vec3(rng), "dimension": [gen.pos_dim(rng), gen.pos_dim(rng)]},
    "Sphere": lambda rng: {"polarization": gen.nz_vec3(rng), "diameter": gen.pos_dim(rng)},
    "Dipole": lambda rng: {"moment": gen.nz_vec3(rng)},
    "Circle": lambda rng: {"current": gen.g8(rng, -2, 2), "diameter": gen.pos_dim(rng)},
    "Polyline": lambda rng: {"current": gen.g8(rng, -2, 2), "segment_start": gen.vec3(rng, -1, 1),
                             "segment_end": gen.vec3(rng, -1, 1)},
    "CylinderSegment": lambda rng: {"polarization": gen.nz_vec3(rng), "dimension": gen.source_kw(
        rng, "CylinderSegment").get("dimension", [0.5, 1.0, 1.0, 0.0, 90.0])},
    "Tetrahedron": lambda rng: {"polarization": gen.nz_vec3(rng), "vertices": gen.tetra_vertices(rng)},
    "Triangle": lambda rng: {"polarization": gen.nz_vec3(rng), "vertices": gen.tetra_vertices(rng)[:3]},
    "TriangularMesh": lambda rng: {"polarization": gen.nz_vec3(rng),
                                   "mesh": [gen.tetra_vertices(rng)[:3], gen.tetra_vertices(rng)[1:]]},
}


# ----------------------------------------------------------------------------- helpers
def enc_result(r):
    """canonical, bitwise encoding of a call result"""
    if isinstance(r, np.ndarray):
        return ["nd", r.dtype.str, list(r.shape), np.ascontiguousarray(r).tobytes().hex()]
    if r is None:
        return None
    if hasattr(r, "to_numpy") and hasattr(r, "columns"):  # pandas.DataFrame
        cols = [str(c) for c in r.columns]
        parts = []
        for c in r.columns:
            col = r[c]
            if col.dtype.kind in "fiu":
                parts.append(["nd", col.dtype.str, np.ascontiguousarray(col.to_numpy()).tobytes().hex()])
            else:
                # source/sensor ids may contain id() based reprs: keep only how many distinct ones
                parts.append(["labels", len(set(col.tolist())), len(col)])
        return ["df", cols, parts]
    if isinstance(r, (float, int)):
        return ["num", float(r).hex()]
    return ["other", type(r).__name__]


def crash_line(tb):
    """line inside getBH_level2 at which the exception left that frame"""
    line = None
    while tb is not None:
        if tb.tb_frame.f_code.co_name == "getBH_level2":
            line = tb.tb_lineno
        tb = tb.tb_next
    return line


def attr_of(path):
    """'.objs[3]._position[2]' -> '_position' ; '.extra.dict.obs0...' -> 'caller:obs0'"""
    if path is None:
        return None
    if path.startswith(".extra"):
        parts = path.split(".")
        return "caller:" + (parts[2] if len(parts) > 2 else "?")
    parts = path.split(".")
    for p in parts:
        name = p.split("[")[0]
        if name and name != "objs":
            return name
    return path


# ----------------------------------------------------------------------------- session
class C08Session(Session):
    def __init__(self, spec, cfg):
        super().__init__(spec, cfg)
        self.world = World(spec)
        # the attributes every object has by construction (or gets from a non-field operation): its state.
        # Private attributes that first appear during a field computation are memos of the library, not state.
        self._state_attrs = [set(vars(o)) for o in self.world.objs]
        self.history = []
        self.hooks = faults.install()
        faults.INDEX_OF[0] = self.world.index

    def close(self):
        faults.reset()

    # ---- building the call ---------------------------------------------------
    def _caller_data(self, op):
        """caller-owned inputs (arrays, lists, Rotation) created from the op data, once per op"""
        data = {}
        for n, item in enumerate(op.get("observers", [])):
            if isinstance(item, dict):
                if "arr" in item:
                    data[f"obs{n}"] = np.array(item["arr"], dtype=float)
                elif "list" in item:
                    data[f"obs{n}"] = copy.deepcopy(item["list"])
                elif "tuple" in item:
                    data[f"obs{n}"] = tuple(item["tuple"])
        for k, v in op.get("dict_kw", {}).items():
            if k == "orientation":
                data["kw_orientation"] = rot_from(v)
            elif op.get("dict_as_array", True) and isinstance(v, list):
                data["kw_" + k] = np.array(v, dtype=float)
            else:
                data["kw_" + k] = copy.deepcopy(v)
        return data

    @staticmethod
    def _bind(world, op, data):
        """caller data + the caller's source/observer containers bound to the objects of `world`"""
        d = dict(data)

        def one(n, it):
            if isinstance(it, int):
                return world[it]
            if "posof" in it:  # a live view of an object's path used as observer positions
                return world[it["posof"]].position
            if "pixelof" in it:
                px = getattr(world[it["pixelof"]], "pixel", None)
                return px if px is not None else world[it["pixelof"]].position
            return data[f"obs{n}"]

        d["obs_list"] = [one(n, it) for n, it in enumerate(op.get("observers", []))]
        d["src_list"] = [world[i] for i in op.get("sources", [])]
        if op.get("tuple_containers"):  # the caller's containers are tuples instead of lists
            d["obs_list"] = tuple(d["obs_list"])
            d["src_list"] = tuple(d["src_list"])
        return d

    def _invoke(self, world, op, data):
        import magpylib as magpy

        field = op["field"]
        name = "get" + field
        # the caller's containers (lists of sources / observers) are caller-owned inputs too: they are
        # created once per op, kept in `data` (so they are part of every snapshot) and reused
        obs = data["obs_list"]
        via = op["via"]
        kw = {}
        for k in ("squeeze", "pixel_agg", "output"):
            if k in op:
                kw[k] = op[k]
        if via == "dict":
            dkw = {k[3:]: v for k, v in data.items() if k.startswith("kw_")}
            return getattr(magpy, name)(op["dict_cls"], obs[0] if obs else None, squeeze=op.get("squeeze", True),
                                        in_out=op.get("in_out", "auto"), **dkw)
        srcs = data["src_list"]
        if via == "top":
            s_in = srcs[0] if (len(srcs) == 1 and op.get("bare_src")) else srcs
            o_in = obs[0] if (len(obs) == 1 and op.get("bare_obs", True)) else obs
            extra = dict(op.get("extra_kw", {}))
            return getattr(magpy, name)(s_in, o_in, sumup=op.get("sumup", False),
                                        in_out=op.get("in_out", "auto"), **kw, **extra)
        if via == "src":
            if hasattr(srcs[0], "_children"):
                return getattr(srcs[0], name)(*obs, **kw)
            return getattr(srcs[0], name)(*obs, in_out=op.get("in_out", "auto"), **kw)
        if via == "sens":
            sens = obs[0]
            return getattr(sens, name)(*srcs, sumup=op.get("sumup", False), in_out=op.get("in_out", "auto"), **kw)
        if via == "coll":
            coll = world[op["coll"]]
            inputs = list(srcs) + list(obs)
            return getattr(coll, name)(*inputs, **kw)
        raise HarnessError("via " + via)

    def _call(self, world, op, data, env_kind=None, trace=False):
        """-> (outcome, encoded result or None, crash line)"""
        if trace:
            with faults.trace_lines():
                return self._call(world, op, data, env_kind)
        had_pandas = None
        faults.ORDER[0] = op.get("order", 0)
        try:
            with warnings.catch_warnings():
                warnings.simplefilter("error" if env_kind == "warn_error" else "ignore")
                if env_kind == "no_pandas":
                    had_pandas = sys.modules.get("pandas", False)
                    sys.modules["pandas"] = None
                if env_kind == "fp_raise":
                    with np.errstate(all="raise"):
                        r = self._invoke(world, op, data)
                else:
                    r = self._invoke(world, op, data)
            return "ok", enc_result(r), None
        except HarnessError:
            raise
        except BaseException as e:  # noqa: BLE001 - includes the simulated KeyboardInterrupt
            if isinstance(e, KeyboardInterrupt) and not isinstance(e, faults.SimInterrupt):
                raise
            if isinstance(e, (SystemExit, GeneratorExit)):
                raise
            return "raised:" + type(e).__name__, None, crash_line(e.__traceback__)
        finally:
            if env_kind == "no_pandas":
                if had_pandas is False:
                    sys.modules.pop("pandas", None)
                else:
                    sys.modules["pandas"] = had_pandas

    # ---- plain ops ------------------------------------------------------------
    def _plain(self, world, op):
        k = op["op"]
        with warnings.catch_warnings():
            warnings.simplefilter("ignore")
            try:
                o = world[op["o"]]
                if k == "move":
                    o.move(op["d"], start=op.get("start", "auto"))
                elif k == "rotate":
                    o.rotate(rot_from(op["r"]), anchor=op.get("anchor"), start=op.get("start", "auto"))
                elif k == "style_touch":
                    o.style.label  # noqa: B018
                else:
                    raise HarnessError(k)
                return "ok"
            except HarnessError:
                raise
            except Exception as e:
                return "raised:" + type(e).__name__

    def _rebuild(self):
        tw = World(self.spec)
        for op in self.history:
            if op["op"] == "field":
                d = self._bind(tw, op, self._caller_data(op))
                self._call(tw, op, d)
            else:
                self._plain(tw, op)
        return tw

    # ---- enumeration ----------------------------------------------------------
    def _variants(self, op, hits, calls, lines=()):
        if "faults" in op:
            return list(op["faults"])
        en = op.get("enumerate")
        if not en:
            return []
        out = []
        seen = set()
        for site, key in hits:
            if (site, key) in seen:
                continue
            seen.add((site, key))
            for fl in en.get("hook_flavours", HOOK_FLAVOURS):
                out.append({"kind": "hook", "site": site, "key": key, "flavour": fl})
        ncalls = {}
        for name, _f, _n in calls:
            ncalls[name] = ncalls.get(name, 0) + 1
        for name in sorted(ncalls):
            for i in range(ncalls[name]):
                for mode in en.get("cb_modes", CB_MODES):
                    out.append({"kind": "cb", "cb": name, "at": i, "mode": mode})
            if "none_always" in en.get("cb_modes", CB_MODES) or True:
                out.append({"kind": "cb", "cb": name, "mode": "none_always", "field": op["field"]})
        for what in en.get("env", []):
            if what == "no_pandas" and op.get("output") != "dataframe":
                continue
            out.append({"kind": "env", "what": what})
        out.sort(key=canon)
        mx = en.get("max", 64)
        if len(out) > mx:
            out = random.Random(en.get("sel_seed", 0)).sample(out, mx)
            out.sort(key=canon)
        # line-granular interrupts: every executed line of the traced functions is a crash point
        lmax = en.get("line_max", 0)
        if lmax and lines:
            lv = [{"kind": "line", "func": f, "line": n} for f, n in lines]
            if len(lv) > lmax:
                lv = random.Random(en.get("sel_seed", 0) + 1).sample(lv, lmax)
            out.extend(lv)
        return out

    @staticmethod
    def _label(var):
        if var is None:
            return None
        if var["kind"] == "hook":
            return f"hook@{var['site']}:{var['flavour']}"
        if var["kind"] == "cb":
            return "cb_" + var["mode"]
        if var["kind"] == "line":
            return "line:int"
        return "env:" + var["what"]

    def _arm(self, var):
        faults.SCRIPT.clear()
        faults.FIRED.clear()
        faults.ARMED[0] = None
        faults.ARMED_LINE[0] = None
        if var["kind"] == "line":
            faults.ARMED_LINE[0] = (var["func"], var["line"])
        if var["kind"] == "hook":
            faults.ARMED[0] = {"site": var["site"], "key": var["key"], "flavour": var["flavour"]}
        elif var["kind"] == "cb":
            if var["mode"] == "none_always":
                faults.script(var["cb"], mode="none_always", field=var.get("field"))
            else:
                faults.script(var["cb"], mode=var["mode"], at=var["at"])

    @staticmethod
    def _disarm():
        faults.SCRIPT.clear()
        faults.ARMED[0] = None
        faults.ARMED_LINE[0] = None

    # ---- the op ---------------------------------------------------------------
    def apply(self, op):
        if op["op"] != "field":
            before = [set(vars(o)) for o in self.world.objs]
            out = self._plain(self.world, op)
            for i, o in enumerate(self.world.objs):
                self._state_attrs[i] |= set(vars(o)) - before[i]
            self.history.append(op)
            self.stats["ops"] += 1
            self.log.add("op", self.step, op["op"], out, sdigest(snap_world(self.world)))
            return
        self._field(op)
        self.history.append(op)

    def _state_only(self, snap):
        """The property is about the state an object *has* (paths, geometry, excitation, pixels, links, style).
        A private attribute that no object had by construction and that only appears during a field
        computation (a memo the library may decide to keep, whatever it holds later) is not that state: it is
        left out of the comparison.  Everything an object had before must still be there, bitwise."""
        objs = []
        for i, b in enumerate(snap["objs"]):
            known = self._state_attrs[i] if i < len(self._state_attrs) else None
            objs.append(b if known is None else
                        {k: v for k, v in b.items() if k in known or not k.startswith("_")})
        return {**snap, "objs": objs}

    def _snap(self, world, data):
        return self._state_only(snap_world(world, extra=data, strict_style=True))

    def _compare(self, world, pre, data, what, op, var, outcome):
        post = self._snap(world, data)
        if post != pre:
            path = first_diff(pre, post)
            raise Violation(
                what, f"{path} differs after {('get' + op['field'])} via {op['via']} "
                      f"[{self._label(var)}] outcome {outcome}",
                op="field", fault=self._label(var), attr=attr_of(path),
            )

    def _field(self, op):
        world = self.world
        faults.INDEX_OF[0] = world.index
        data = self._bind(world, op, self._caller_data(op))
        pre = self._snap(world, data)
        # 1. baseline, fault free, recording reachable sites
        faults.HITS.clear()
        faults.CALLS.clear()
        faults.LINES.clear()
        want_lines = bool((op.get("enumerate") or {}).get("line_max"))
        faults.RECORD[0] = True
        try:
            out0, r0, line0 = self._call(world, op, data, trace=want_lines)
        finally:
            faults.RECORD[0] = False
        hits = list(faults.HITS)
        calls = list(faults.CALLS)
        lines = list(dict.fromkeys(faults.LINES))  # distinct, in first-execution order
        self.stats["ops"] += 1
        self.stats["field_calls"] += 1
        self.stats["baseline." + out0.split(":")[0]] += 1
        n_tiled = sum(1 for s, _ in hits if s == "tile.obj")
        if n_tiled >= 1:
            self.probe("window_with>=1_padded")
        if n_tiled >= 2:
            self.probe("window_with>=2_padded")
        if out0 != "ok":
            self.probe("baseline_invalid_call")
            if line0:
                self.stats[f"crash_line.{line0}"] += 1
        self.log.add("field", self.step, op["field"], op["via"], out0, sdigest(r0), sorted(set(map(tuple, hits)), key=canon))
        self._compare(world, pre, data, "state_changed_after_call" if out0 == "ok"
                      else "state_changed_after_failed_call", op, None, out0)
        # 2. calling again gives the identical result
        out1, r1, _ = self._call(world, op, data)
        if (out1, r1) != (out0, r0):
            raise Violation("repeat_call_differs", f"second identical call gave {out1} instead of {out0}"
                            if out1 != out0 else "second identical call returned different values",
                            op="field", fault=None)
        self._compare(world, pre, data, "state_changed_after_call" if out1 == "ok"
                      else "state_changed_after_failed_call", op, None, out1)
        self.transition("field", op["via"], op["field"], min(n_tiled, 3), None, None, out0)
        # 3. every reachable crash site x flavour
        group_order = [k for s, k in hits if s == "group.eval"]
        for var in self._variants(op, hits, calls, lines):
            w = world
            data_main = data
            pre_v = pre
            if self.cfg.get("twin_mode") == "rebuild":
                w = self._rebuild()
                faults.INDEX_OF[0] = w.index
                data = self._bind(w, op, data_main)
                pre_w = self._snap(w, data)
                if pre_w != pre:
                    raise HarnessError("rebuilt twin differs from the main world: " + str(first_diff(pre, pre_w)))
                pre_v = pre_w
            self._arm(var)
            try:
                out, r, line = self._call(w, op, data, env_kind=var.get("what") if var["kind"] == "env" else None,
                                          trace=var["kind"] == "line")
                fired = list(faults.FIRED)
            finally:
                self._disarm()
            self.stats["variants"] += 1
            label = self._label(var)
            self.stats["attempt." + label] += 1
            did_fire = bool(fired) or (var["kind"] == "env" and out != out0)
            if did_fire:
                self.fault_fired(label)
                if out != "ok" and line:
                    self.stats[f"crash_line.{line}"] += 1
                if var["kind"] == "hook":
                    if var["site"] == "tile.obj" and var["key"] is not None and \
                            type(w[var["key"]]).__name__ == "Sensor":
                        self.probe("fault_while_sensor_padded")
                    if var["site"] == "group.eval" and group_order and var["key"] != group_order[0]:
                        self.probe("fault_at_group_index>=1")
                    if var["site"] in ("sensor.rot", "pixel.agg") and n_tiled:
                        self.probe("fault_after_eval_with_padded_paths")
                if var["kind"] == "cb" and n_tiled:
                    self.probe("callback_fault_with_padded_paths")
                if var["kind"] == "line":
                    self.stats["line_fault." + var["func"]] += 1
                    if n_tiled:
                        self.probe("line_interrupt_with_padded_paths")
            self.log.add("var", self.step, canon(var), out, did_fire, sdigest(r))
            self.transition("field", op["via"], op["field"], min(n_tiled, 3), label, did_fire, out.split(":")[0])
            what = "state_changed_after_call" if out == "ok" else "state_changed_after_failed_call"
            try:
                self._compare(w, pre_v, data, what, op, var, out)
                # the fault is disarmed: the same call must give the baseline result
                out2, r2, _ = self._call(w, op, data)
                if (out2, r2) != (out0, r0):
                    raise Violation(
                        "repeat_call_differs",
                        f"after [{label}] the same call gave {out2} / different values (baseline {out0})",
                        op="field", fault=label)
                self._compare(w, pre_v, data, "state_changed_after_call" if out2 == "ok"
                              else "state_changed_after_failed_call", op, var, out2)
            except Violation as v:
                v.narrow = {"faults": [var], "enumerate": None}
                raise
            finally:
                faults.INDEX_OF[0] = world.index
                data = data_main

    def epilogue(self):
        """fault-free: every fully initialised source still computes, twice the same"""
        w = self.world
        for i, o in enumerate(w.objs):
            if hasattr(o, "_children") or type(o).__name__ == "Sensor":
                continue
            op = {"op": "field", "field": "B", "via": "src", "sources": [i],
                  "observers": [{"arr": [0.125, 0.25, 0.375]}]}
            d = self._bind(w, op, self._caller_data(op))
            a = self._call(w, op, d)
            b = self._call(w, op, d)
            self.log.add("epi", i, a[0], sdigest(a[1]))
            if a[:2] != b[:2]:
                raise Violation("repeat_call_differs", "epilogue getB differs between two calls", op="epilogue")
            break
        for o in w.objs[:2]:
            out = self._plain(w, {"op": "move", "o": w.index(o), "d": [0, 0, 0], "start": 0})
            if out != "ok":
                raise Violation("epilogue.usable", f"move after the history {out}", op="epilogue")


# ----------------------------------------------------------------------------- generator
class Sim:
    id = ID
    level = LEVEL
    runs = {"quick": 2400}
    budget = {"thorough": 600}
    chunk = {"quick": 25, "thorough": 25}
    cross_n = 16
    rule = ("One evaluation = one seeded session: a world of 2-6 sources (all 11 classes incl. scripted "
            "CustomSources), 0-2 nested collections and 1-3 sensors (pixel shapes none/(3,)/(1,3)/(2,3)/(2,2,3), "
            "mixed handedness, path lengths 1-5 chosen so that usually >=2 differ), an ageing prefix of "
            "moves/rotations, and 1-3 target calls getB/H/J/M through magpy.getX, src.getX, sens.getX, "
            "coll.getX or the functional interface with random sumup/squeeze/pixel_agg/output/in_out and "
            "caller-owned observer arrays. For each target call: fault-free baseline (recording every "
            "fault-point hit and callback invocation), then EVERY reachable site x flavour (named fault "
            "point x MemoryError/KeyboardInterrupt; i-th callback invocation x raise/None/wrong shape/"
            "list/scalar/in-place mutation; field not implemented; FP errors raised; warnings as errors; "
            "pandas missing), capped at 64 per call. Oracle: world + caller inputs bitwise unchanged after "
            "every call (returned or raised) and the disarmed call returns the baseline bitwise. "
            "distinct_nontrivial counts distinct (entry point, field, #padded objects class, fault label, "
            "fired?, outcome) tuples.")
    real_components = ["magpylib (all of it, from the working tree under test, with the guarded fault points on)",
                       "numpy", "scipy", "pandas (output='dataframe')"]
    stub_components = ["user field functions of CustomSource (scripted cb0..cb3)",
                       "exceptions raised at the six named fault points in getBH_level2 (SimFault=MemoryError, "
                       "SimInterrupt=KeyboardInterrupt)", "numpy error state / warnings filter configuration",
                       "a hidden pandas module"]
    assumptions = ["single-shot faults: once a fault fired the injector is disarmed, recovery runs fault-free",
                   "after a variant whose post-state is bitwise equal to the pre-state the same world is reused "
                   "for the next variant (10% of runs rebuild a fresh twin by replay instead; both must agree)",
                   "single-threaded use", "bounds: <=6 sources, <=3 sensors, paths <=5, <=64 variants per call"]

    def new_config(self, rng, tier):
        thorough = tier == "thorough"
        return {
            "tier": tier,
            "n_ops": rng.randint(1, 6 if thorough else 4),
            "n_src": rng.randint(1, 6),
            "n_sens": rng.randint(1, 3),
            "n_coll": rng.choice([0, 0, 1, 2]),
            "classes": [c for c in gen.SOURCE_CLASSES if rng.random() < 0.6] or ["Cuboid"],
            "p_diff_len": 0.8,
            "half_init": rng.choice([0.0, 0.0, 0.0, 0.08]),
            "vias": [v for v in ["top", "src", "sens", "coll", "dict"] if rng.random() < 0.7] or ["top"],
            "max_variants": rng.choice([8, 24, 64]),
            "line_max": rng.choice([0, 0, 0, 8, 16]),
            "hook_flavours": rng.choice([["mem"], ["mem", "int"]]),
            "cb_modes": [m for m in CB_MODES if rng.random() < 0.7] or ["raise"],
            "env": [e for e in ["fp_raise", "warn_error", "no_pandas"] if rng.random() < 0.5],
            "twin_mode": "rebuild" if rng.random() < 0.1 else "reuse",
            "p_field": rng.choice([0.5, 0.8]),
            "p_bad_arg": rng.choice([0.0, 0.0, 0.03, 0.1]),
        }

    def new_world_spec(self, rng, cfg):
        objs = []
        same_len = rng.random() > cfg["p_diff_len"]
        base_len = rng.randint(1, 5)

        def plen():
            return base_len if same_len else rng.choice([1, 1, 2, 3, 4, 5])

        if "CustomSource" in cfg["classes"] and rng.random() < 0.5:
            first = "CustomSource"
        else:
            first = rng.choice(cfg["classes"])
        for k in range(cfg["n_src"]):
            cls = first if k == 0 else rng.choice(cfg["classes"])
            objs.append(gen.obj_spec(rng, cls, plen(), cfg["half_init"]))
        for _ in range(cfg["n_sens"]):
            objs.append(gen.obj_spec(rng, "Sensor", plen(), pixel_kind=rng.choice(gen.PIXELS)))
        n_leaf = len(objs)
        free = list(range(n_leaf))
        rng.shuffle(free)
        colls = []
        for _ in range(cfg["n_coll"]):
            c = gen.obj_spec(rng, "Collection", plen())
            k = rng.randint(0, min(3, len(free)))
            c["children"] = [free.pop() for _ in range(k)]
            if colls and rng.random() < 0.4:
                c["children"].append(colls.pop())  # nest an earlier collection
            objs.append(c)
            colls.append(len(objs) - 1)
        return {"objects": objs}

    def session(self, spec, cfg):
        return C08Session(spec, cfg)

    def gen_op(self, rng, cfg, sess):
        w = sess.world
        n = len(w.objs)
        last = sess.step + 1 >= cfg["n_ops"] - 1
        if not last and rng.random() > cfg["p_field"]:
            k = rng.choice(["move", "rotate", "style_touch"])
            o = rng.randrange(n)
            if k == "move":
                vecn = rng.choice([0, 0, 2, 3])
                return {"op": "move", "o": o, "d": gen.path(rng, vecn) if vecn else gen.vec3(rng),
                        "start": rng.choice(["auto", "auto", 0, 1, -1])}
            if k == "rotate":
                vecn = rng.choice([0, 0, 2])
                return {"op": "rotate", "o": o, "r": gen.rotvecs(rng, vecn) if vecn else gen.rotvec_deg(rng),
                        "anchor": rng.choice([None, 0, gen.vec3(rng)]), "start": rng.choice(["auto", 0, -1])}
            return {"op": "style_touch", "o": o}
        return self._gen_field(rng, cfg, w)

    def _gen_field(self, rng, cfg, w):
        srcs = [i for i, o in enumerate(w.objs) if not hasattr(o, "_children") and type(o).__name__ != "Sensor"]
        sens = [i for i, o in enumerate(w.objs) if type(o).__name__ == "Sensor"]
        colls = w.colls()
        src_colls = [i for i in colls if w.objs[i].sources_all]
        sens_colls = [i for i in colls if w.objs[i].sensors_all]
        via = rng.choice(cfg["vias"])
        op = {"op": "field", "field": rng.choice(FIELDS), "via": via,
              "squeeze": rng.random() < 0.6, "pixel_agg": pick_agg(rng),
              "output": "dataframe" if rng.random() < 0.12 else "ndarray"}
        if rng.random() < cfg["p_bad_arg"]:
            op[rng.choice(["pixel_agg", "output"])] = rng.choice(["nope", 3, "argpartition"])
        if via != "coll":
            op["in_out"] = rng.choice(["auto", "auto", "auto", "inside", "outside"])

        def obs_array():
            r = rng.random()
            shape = rng.choice(["3", "n3", "n3", "nm3"])
            if rng.random() < 0.04:
                a = [gen.vec3(rng), [None, 0.5, 0.25]]  # an observer with a NaN coordinate
                return {"arr": a} if rng.random() < 0.5 else {"list": a}
            if shape == "3":
                a = gen.vec3(rng)
            elif shape == "n3":
                a = gen.path(rng, rng.randint(1, 4))
            else:
                a = [gen.path(rng, 2) for _ in range(rng.randint(1, 2))]
            if r < 0.6:
                return {"arr": a}
            if r < 0.85:
                return {"list": a}
            return {"tuple": a}

        def pick_obs(k):
            out = []
            for _ in range(k):
                r = rng.random()
                if r < 0.08:
                    out.append({"posof": rng.randrange(len(w.objs))} if rng.random() < 0.6 or not sens
                               else {"pixelof": rng.choice(sens)})
                elif r < 0.55 and sens:
                    out.append(rng.choice(sens))
                elif r < 0.7 and sens_colls:
                    out.append(rng.choice(sens_colls))
                else:
                    out.append(obs_array())
            return out

        def pick_srcs(k):
            out = []
            for _ in range(k):
                if src_colls and rng.random() < 0.3:
                    out.append(rng.choice(src_colls))
                elif srcs:
                    out.append(rng.choice(srcs))
            return out

        if via == "dict":
            cls = rng.choice(sorted(DICT_KW))
            kw = DICT_KW[cls](rng)
            nvec = rng.choice([1, 1, 3])
            if rng.random() < 0.5:
                kw["position"] = gen.path(rng, nvec) if nvec > 1 else gen.vec3(rng)
            if rng.random() < 0.4:
                kw["orientation"] = gen.rotvecs(rng, nvec)
            if rng.random() < 0.4 and nvec > 1:
                k0 = sorted(k for k in kw if k not in ("position", "orientation"))[0]
                if not isinstance(kw[k0], list) or not isinstance(kw[k0][0], list):
                    kw[k0] = [kw[k0]] * (nvec if rng.random() < 0.85 else nvec + 1)
            if cls in ("Tetrahedron", "Triangle") and nvec > 1 and rng.random() < 0.7:
                # one geometry per instance (both chiralities occur among the tetrahedra)
                fn = gen.tetra_vertices
                kw["vertices"] = [fn(rng) if cls == "Tetrahedron" else fn(rng)[:3] for _ in range(nvec)]
                if cls == "Tetrahedron":  # its polarization is registered with ndim 1: give one per instance
                    kw["polarization"] = [kw["polarization"]] * nvec
            alias_name = {"Circle": "Loop", "Polyline": "Line"}.get(cls)
            if alias_name and rng.random() < 0.3:
                cls = alias_name  # deprecated names that are still registered
            op.update({"dict_cls": cls if rng.random() > 0.03 else "Bogus", "dict_kw": kw,
                       "dict_as_array": rng.random() < 0.7,
                       "observers": [{"arr": gen.path(rng, nvec if rng.random() < 0.8 else 2)}],
                       "sources": []})
            op.pop("pixel_agg", None)
            op.pop("output", None)
        elif via == "top":
            op["sources"] = pick_srcs(rng.choice([1, 1, 2, 3, 4])) or []
            op["observers"] = pick_obs(rng.choice([1, 1, 2, 3]))
            op["bare_src"] = rng.random() < 0.5
            op["bare_obs"] = rng.random() < 0.8
            op["sumup"] = rng.random() < 0.4
            if rng.random() < cfg["p_bad_arg"]:
                op["extra_kw"] = {"dimension": [1, 1, 1]}
            if rng.random() < cfg["p_bad_arg"]:
                op["sources"] = []
        elif via == "src":
            pure = [c for c in src_colls if not w.objs[c].sensors_all]
            op["sources"] = [rng.choice(pure)] if (pure and rng.random() < 0.15) else \
                [rng.choice(srcs)] if srcs else []
            if not op["sources"]:
                op["sources"] = [rng.randrange(len(w.objs))]
            op["observers"] = pick_obs(rng.choice([1, 1, 2]))
        elif via == "sens":
            if not sens:
                return self._gen_field(rng, dict(cfg, vias=["top"]), w)
            op["observers"] = [rng.choice(sens)]
            op["sources"] = pick_srcs(rng.choice([1, 2, 3]))
            op["sumup"] = rng.random() < 0.4
        elif via == "coll":
            if not colls:
                return self._gen_field(rng, dict(cfg, vias=["top"]), w)
            c = rng.choice(colls)
            op["coll"] = c
            has_src, has_sens = bool(w.objs[c].sources_all), bool(w.objs[c].sensors_all)
            op["sources"], op["observers"] = [], []
            if has_src and has_sens:
                if rng.random() < 0.1:
                    op["observers"] = pick_obs(1)
            elif has_src:
                op["observers"] = pick_obs(rng.choice([1, 1, 2]))
            elif has_sens:
                op["sources"] = pick_srcs(rng.choice([1, 2]))
            else:
                op["observers"] = pick_obs(1)
            if has_src and has_sens:
                sess_probe = True  # noqa: F841
        if len(op.get("observers", [])) > 1 and op.get("pixel_agg") is None and via != "dict" \
                and rng.random() < 0.7:
            op["pixel_agg"] = rng.choice(AGG_GOOD)
        if rng.random() < 0.2:
            op["tuple_containers"] = True
        if rng.random() < 0.5:
            op["order"] = rng.randrange(1, 1 << 20)  # the simulator decides the tiled-set iteration order
        op["enumerate"] = {"line_max": cfg.get("line_max", 0), "max": cfg["max_variants"], "hook_flavours": cfg["hook_flavours"],
                           "cb_modes": cfg["cb_modes"], "env": cfg["env"], "sel_seed": rng.randrange(1 << 30)}
        return op

    # -- shrinking support -------------------------------------------------------
    def simplify_op(self, op):
        if op["op"] != "field":
            if op["op"] in ("move", "rotate"):
                if op.get("start") not in ("auto", 0):
                    yield dict(op, start="auto")
                if op.get("anchor") is not None:
                    yield dict(op, anchor=None)
            return
        if op.get("enumerate"):
            yield {k: v for k, v in op.items() if k != "enumerate"}
        fs = op.get("faults")
        if fs:
            yield {k: v for k, v in op.items() if k != "faults"}
            if len(fs) > 1:
                for f in fs:
                    yield dict(op, faults=[f])
            for f in fs:
                if f.get("flavour") == "int":
                    yield dict(op, faults=[dict(f, flavour="mem")])
                if f.get("kind") == "cb" and f.get("mode") not in ("raise", "none_always"):
                    yield dict(op, faults=[dict(f, mode="raise")])
                if f.get("kind") == "cb" and f.get("at", 0) > 0:
                    yield dict(op, faults=[dict(f, at=0)])
        for k, simple in (("squeeze", True), ("pixel_agg", None), ("output", "ndarray"), ("in_out", "auto"),
                          ("sumup", False), ("field", "B"), ("bare_obs", True)):
            if k in op and op[k] != simple:
                yield dict(op, **{k: simple})
        if "extra_kw" in op:
            yield {k: v for k, v in op.items() if k != "extra_kw"}
        if op.get("order"):
            yield {k: v for k, v in op.items() if k != "order"}
        for key in ("sources", "observers"):
            lst = op.get(key, [])
            if len(lst) > 1:
                for i in range(len(lst)):
                    yield dict(op, **{key: lst[:i] + lst[i + 1:]})
        obs = op.get("observers", [])
        for i, it in enumerate(obs):
            if isinstance(it, dict) and it != {"arr": [0.5, 0.5, 0.5]} and "arr" in it or \
                    isinstance(it, dict) and ("list" in it or "tuple" in it):
                yield dict(op, observers=obs[:i] + [{"arr": [0.5, 0.5, 0.5]}] + obs[i + 1:])
        if op["via"] in ("src", "sens") and op.get("sources") and op.get("observers"):
            yield dict(op, via="top")

    def simplify_spec(self, spec, ops):
        yield from generic_simplify_spec(spec, ops)


def referenced(ops):
    """pool indices referenced by ops (ints in well-known fields)"""
    ref = set()
    for op in ops:
        for k in ("o", "t", "a", "b", "coll", "p"):
            if isinstance(op.get(k), int):
                ref.add(op[k])
        for k in ("sources", "observers", "args"):
            for x in op.get(k, []) or []:
                if isinstance(x, int):
                    ref.add(x)
        for f in (op.get("faults") or []) + (op.get("variants") or []):
            for k in ("key", "ref"):
                if isinstance(f.get(k), int):
                    ref.add(f[k])
    return ref


def generic_simplify_spec(spec, ops):
    objs = spec["objects"]
    n = len(objs)
    ref = {r % n for r in referenced(ops)} if n else set()
    child_of = {}
    for i, o in enumerate(objs):
        for c in o.get("children", []) or []:
            child_of[c] = i
    # drop a trailing unreferenced object
    if n > 1 and (n - 1) not in ref and (n - 1) not in child_of and all(r < n - 1 for r in referenced(ops)):
        yield {"objects": objs[:-1]}
    for i, o in enumerate(objs):
        # detach children
        ch = o.get("children")
        if ch:
            for j in range(len(ch)):
                c = list(objs)
                c[i] = dict(o, children=ch[:j] + ch[j + 1:])
                yield {"objects": c}
        # simplify the pose
        if o.get("rot") is not None:
            c = list(objs)
            c[i] = {k: v for k, v in o.items() if k != "rot"}
            yield {"objects": c}
        pos = o.get("pos")
        if pos is not None:
            c = list(objs)
            if isinstance(pos[0], list) and len(pos) > 2:
                c[i] = dict(o, pos=pos[:2])
                if o.get("rot") is not None and len(o["rot"]) > 2:
                    c[i]["rot"] = o["rot"][:2]
                yield {"objects": c}
                c = list(objs)
            zero = [[0.0, 0.0, 0.0]] * len(pos) if isinstance(pos[0], list) else [0.0, 0.0, 0.0]
            if pos != zero:
                c[i] = dict(o, pos=zero)
                yield {"objects": c}
        # replace unreferenced, non-child leaves by something trivial
        if i not in ref and i not in child_of and o["cls"] not in ("Sensor", "Collection") and \
                (o.get("kw") or o.get("pos") is not None):
            c = list(objs)
            c[i] = {"cls": "Sensor"}
            yield {"objects": c}
        if o["cls"] == "Sensor" and o.get("kw"):
            c = list(objs)
            c[i] = dict(o, kw={})
            yield {"objects": c}
