"""C09 — move/rotate and the pose setters follow the documented path semantics (DESIGN.md §3 C09).

Level: exploration — seeded histories, refinement against the reference path model after every
step; the rejected-call variants of every step are enumerated on a twin.
"""
from __future__ import annotations

import numpy as np

from .. import gen, pathops
from ..core import HarnessError, Session, Violation
from ..models.path_model import PathModel
from ..snapshot import first_diff, sdigest, snap_obj, snap_world
from ..world import World
from .c08 import attr_of, generic_simplify_spec

ID = "C09"
LEVEL = "exploration"
TOL = 1e-9
CLASSES = ["Sensor", "Dipole", "Cuboid", "Collection", "Circle"]


def start_class(start, N):
    if start == "auto":
        return "auto"
    if start == 0:
        return "0"
    if start == N:
        return "=N"
    if start == -N:
        return "=-N"
    if start > N:
        return ">N"
    if start < -N:
        return "<-N"
    return "in+" if start > 0 else "in-"


def anchor_class(a, nvec):
    if a is None:
        return "none"
    if pathops.is_selfpos(a):
        return "own-position"
    if pathops.is_posof(a):
        return "other-object-position"
    if a == 0:
        return "0"
    if isinstance(a[0], list):
        return "per-step" + ("<" if len(a) < nvec else ">" if len(a) > nvec else "=")
    return "single"


op_nvec = pathops.op_nvec


def _plain(model):
    """positions of a model as the value `obj.position` would have (squeezed)"""
    P = np.array(model.P)
    return (P[0] if len(P) == 1 else P).tolist()


class C09Session(Session):
    def __init__(self, spec, cfg):
        super().__init__(spec, cfg)
        self.world = World(spec)
        self.twin = World(spec)
        self.models = []
        for o in self.world.objs:
            self.models.append(PathModel(o._position, pathops.quats_of(o)))
        self.shrunk = [False] * len(self.world.objs)
        self._construction_checked = False

    def _check_construction(self):
        """position and orientation given at construction: the shorter one is edge-padded to the longer one"""
        from scipy.spatial.transform import Rotation as R

        for i, (o, sp) in enumerate(zip(self.world.objs, self.spec["objects"])):
            P = np.array(sp["pos"], dtype=float).reshape(-1, 3) if sp.get("pos") is not None else np.zeros((1, 3))
            Q = R.from_rotvec(np.array(sp["rot"], dtype=float), degrees=True).as_quat().reshape(-1, 4) \
                if sp.get("rot") is not None else np.array([[0.0, 0.0, 0.0, 1.0]])
            n = max(len(P), len(Q))
            P = np.concatenate([P, np.tile(P[-1], (n - len(P), 1))])
            Q = np.concatenate([Q, np.tile(Q[-1], (n - len(Q), 1))])
            if sp.get("bystander"):
                continue
            if len(o._position) != len(o._orientation):
                raise Violation("path_lengths_equal", f"object {i} constructed with position path "
                                f"{o._position.shape} and orientation path of length {len(o._orientation)}",
                                op="construct")
            d = PathModel(P, Q).compare(o._position, pathops.quats_of(o), TOL)
            if d:
                raise Violation("model_refinement", f"object {i} after construction: {d}", op="construct",
                                kind="length" if "length" in d else "value")

    def _sync_twin(self, i):
        pathops.exact_pose_copy(self.world.objs[i], self.twin.objs[i])
        return self.twin.objs[i]

    def _check_model(self, i, op):
        o, m = self.world.objs[i], self.models[i]
        if len(o._position) != len(o._orientation) or len(o._position) < 1 or o._position.ndim != 2:
            raise Violation("path_lengths_equal", f"position path {o._position.shape}, orientation path "
                            f"{len(o._orientation)}", op=op["op"], form=op.get("form"))
        d = m.compare(o._position, pathops.quats_of(o), TOL)
        if d:
            raise Violation("model_refinement", d + f" after {op['op']}", op=op["op"], form=op.get("form"),
                            kind="length" if "length" in d else ("position" if "position" in d else "orientation"))

    def apply(self, op):
        if not self._construction_checked:  # inside the run loop, so that a violation is a verdict
            self._construction_checked = True
            self._check_construction()
        w = self.world
        i = op["o"] % len(w.objs)
        obj = w.objs[i]
        N = len(obj._position)
        nvec = op_nvec(op)
        # tokens {"posof": j}: live views of another object's path for the real call, plain values for the model
        mop = pathops.materialise(op, lambda j: _plain(self.models[j % len(self.models)]))
        rop = pathops.materialise(op, lambda j: w[j].position)
        top = pathops.materialise(op, lambda j: self._sync_twin(j % len(w.objs)).position)
        # 1. rejected variants of this step's op, on a twin holding exactly the same path
        if self.cfg.get("rejects", True) and op["op"] != "reset_path":
            for vop in pathops.reject_variants(top):
                t = self._sync_twin(i)
                pre = snap_obj(t, self.twin.index, with_style=False)
                out = pathops.exec_path_op(t, vop)
                self.stats["variants"] += 1
                post = snap_obj(t, self.twin.index, with_style=False)
                kind = vop["bad"]["kind"]
                self.log.add("rej", self.step, kind, out, sdigest(post))
                if out == "ok":
                    self.stats["reject_variant_accepted"] += 1  # acceptance is not this property's business (C17)
                    # ... but whatever is accepted must leave a well-formed path
                    if t._position.ndim != 2 or len(t._position) < 1 or len(t._orientation) != len(t._position):
                        raise Violation("path_lengths_equal",
                                        f"{op['op']} with {vop['bad']['field']} ({kind}) was accepted and left a position "
                                        f"path of shape {t._position.shape} and an orientation path of length "
                                        f"{len(t._orientation)}", op=op["op"], form=op.get("form"), fault="reject:" + kind)
                    continue
                self.fault_fired("reject:" + kind)
                self.transition(op["op"], op.get("form"), "reject", kind, out)
                if post != pre:
                    raise Violation("rejected_call_changed_state",
                                    f"{op['op']} with invalid {vop['bad']['field']} ({kind}) raised {out} but "
                                    f"changed {first_diff(pre, post)}", op=op["op"], form=op.get("form"),
                                    fault="reject:" + kind, attr=attr_of(first_diff(pre, post)))
        # 2. rotate_from_* == rotate() with the equivalent rotation (on the twin)
        expect_equiv = None
        if op["op"] == "rotate" and op["form"] != "rotation":
            t = self._sync_twin(i)
            eq = dict(op, form="rotation")
            rot = pathops.rotation_of(op)
            out_t = "ok"
            try:
                t.rotate(rot, anchor=t.position if pathops.is_selfpos(op.get("anchor")) else top.get("anchor"),
                         start=op.get("start", "auto"))
            except Exception as e:
                out_t = "raised:" + type(e).__name__
            expect_equiv = (out_t, t._position.copy(), pathops.quats_of(t).copy())
        # 3. the op itself
        others = [snap_obj(o, w.index, with_style=False) if j != i else None for j, o in enumerate(w.objs)]
        pre = snap_obj(obj, w.index, with_style=False)
        out = pathops.exec_path_op(obj, rop)
        self.stats["ops"] += 1
        self.stats["op." + op["op"] + ("." + op["form"] if "form" in op else "")] += 1
        post = snap_obj(obj, w.index, with_style=False)
        self.log.add("op", self.step, op["op"], op.get("form"), out, sdigest(post))
        for j, o in enumerate(w.objs):
            if j != i and snap_obj(o, w.index, with_style=False) != others[j]:
                raise Violation("other_object_changed", f"object {j} changed by {op['op']} on object {i}",
                                op=op["op"])
        if out != "ok":
            # a call the generator believed valid was rejected: the model tells whether it should have been
            self.stats["natural_reject"] += 1
            if post != pre:
                raise Violation("rejected_call_changed_state", f"{op['op']} raised {out} and changed "
                                f"{first_diff(pre, post)}", op=op["op"], form=op.get("form"), fault="natural")
            raise Violation("valid_call_rejected", f"{op['op']} {op.get('form')} raised {out}", op=op["op"],
                            form=op.get("form"), outcome=out)
        res = pathops.apply_to_model(self.models[i], mop)
        if res[0] == "pad":
            if res[1]:
                self.probe("pad_before")
            if res[2]:
                self.probe("pad_behind")
            if res[1] and res[2]:
                self.probe("pad_both_in_one_op")
            if op.get("start") in (N, -N) and N > 0:
                self.probe("start_exactly_+-N")
            if self.shrunk[i] and isinstance(op.get("start"), int) and op["start"] < 0:
                self.probe("negative_start_after_shrink")
        if res[0] in ("set", "reset"):
            Nn = len(self.models[i])
            if Nn < N:
                self.probe("setter_slices")
                self.shrunk[i] = True
            elif Nn > N:
                self.probe("setter_pads")
        a = op.get("anchor")
        if any(pathops.is_selfpos(x) for x in (a, op.get("d"), op.get("v"))):
            self.probe("input_aliases_own_path")
        if any(pathops.is_posof(x) for x in (a, op.get("d"), op.get("v"))):
            self.probe("input_aliases_other_objects_path")
        if isinstance(a, list) and a and isinstance(a[0], list):
            if len(a) != max(nvec, 1):
                self.probe("per_step_anchor_len!=rotation_len")
        self._check_model(i, op)
        if expect_equiv is not None:
            out_t, P, Q = expect_equiv
            m = PathModel(P, Q)
            d = "rotate() raised " + out_t if out_t != "ok" else m.compare(obj._position, pathops.quats_of(obj), TOL)
            if d:
                raise Violation("rotate_from_equals_rotate", f"{op['form']}: {d}", op="rotate", form=op["form"])
        self.transition(op["op"], op.get("form"), "scalar" if nvec == 0 else "vector", min(nvec, 3),
                        start_class(op.get("start", "auto"), N) if "start" in op else None,
                        res[0] if res[0] != "pad" else f"pad{int(bool(res[1]))}{int(bool(res[2]))}",
                        anchor_class(op.get("anchor"), max(nvec, 1)) if op["op"] == "rotate" else None,
                        op.get("degrees"))

    def epilogue(self):
        for i, o in enumerate(self.world.objs):
            if self.spec["objects"][i].get("bystander"):
                continue
            op = {"op": "move", "o": i, "d": [0.125, 0.0, -0.25], "start": "auto"}
            out = pathops.exec_path_op(o, op)
            if out != "ok":
                raise Violation("epilogue.usable", f"scalar move {out}", op="epilogue")
            pathops.apply_to_model(self.models[i], op)
            self._check_model(i, op)
            self.log.add("epi", i, out, sdigest(snap_obj(o, self.world.index, with_style=False)))


class Sim:
    id = ID
    level = LEVEL
    runs = {"quick": 8000}
    budget = {"thorough": 600}
    chunk = {"quick": 100, "thorough": 100}
    rule = ("One evaluation = one seeded session: 1-3 independent objects (Sensor, Dipole, Cuboid, Circle, empty "
            "Collection) with initial paths of length 1-5 and a history of 3-16 (quick) / 3-40 (thorough) ops "
            "over move, rotate (7 parametrisations, degrees/radians), position=, orientation=, reset_path with "
            "scalar and vector input (n<=4), start in {'auto'} u [-N-3, N+3], anchors none/0/single/per-step. "
            "After every step: object == reference path model (1e-9), equal path lengths >= 1, other objects "
            "bitwise unchanged, rotate_from_* == rotate(equivalent rotation) on a twin; before every step all "
            "invalid-argument variants of the op (7-11 per op) are run on a twin and must change nothing when "
            "rejected. distinct_nontrivial counts distinct (method, form, scalar|vector, n, start class relative "
            "to N, padding class, anchor class, degrees) and (method, form, reject kind, exception) tuples.")
    real_components = ["magpylib (all of it, from the working tree under test)", "numpy", "scipy"]
    stub_components = ["invalid arguments (typos) injected one at a time into otherwise valid path operations"]
    assumptions = ["reference model written from the documentation; tolerance 1e-9 (measured worst deviation on "
                   "the pinned tree ~1e-14)", "orientation=None is a single unit rotation (class documentation), "
                   "the position path is end-sliced to length 1",
                   "bounds: path length grows to at most ~60 entries, coordinates |x| <= 4 per step",
                   "a reject variant that the library accepts is counted, not flagged (C17's business)"]

    def new_config(self, rng, tier):
        thorough = tier == "thorough"
        kinds = [k for k in ["move", "rotate", "setter", "reset"] if rng.random() < 0.8] or ["move"]
        if "reset" in kinds and rng.random() < 0.5:
            kinds.remove("reset")
        kinds = kinds or ["rotate"]
        return {
            "tier": tier,
            "n_ops": rng.randint(3, 40 if thorough else 16),
            "n_obj": rng.choice([1, 1, 2, 3]),
            "kinds": kinds + (["rotate"] if "rotate" in kinds else []),
            "forms": [f for f in pathops.FORMS if rng.random() < 0.7] or ["rotation"],
            "rejects": rng.random() < 0.8,
            "wild_start": rng.random() < 0.8,
            "alias": rng.random() < 0.7,
            "with_parent": rng.random() < 0.3,
        }

    def new_world_spec(self, rng, cfg):
        objs = []
        for _ in range(cfg["n_obj"]):
            cls = rng.choice(CLASSES)
            L = rng.choice([1, 1, 2, 3, 5])
            s = gen.obj_spec(rng, cls if cls != "Sensor" else "Sensor", L)
            if cls in ("Dipole", "Cuboid", "Circle"):
                s["kw"] = {"Dipole": {"moment": [1, 0, 0]}, "Cuboid": {"polarization": [0, 0, 1], "dimension": [1, 1, 1]},
                           "Circle": {"current": 1, "diameter": 1}}[cls]
            elif cls == "Sensor":
                s["kw"] = {}
            objs.append(s)
        if cfg.get("with_parent"):
            # the objects are children of a collection that is never operated itself: an object with a
            # parent, operated alone, follows the same path semantics and the parent does not move
            kids = [i for i, o in enumerate(objs) if o["cls"] != "Collection" or rng.random() < 0.5]
            objs.append({"cls": "Collection", "kw": {}, "pos": gen.path(rng, rng.choice([1, 2])), "children": kids,
                         "bystander": True})
        return {"objects": objs}

    def session(self, spec, cfg):
        return C09Session(spec, cfg)

    def gen_op(self, rng, cfg, sess):
        w = sess.world
        targets = [i for i, sp in enumerate(sess.spec["objects"]) if not sp.get("bystander")] or [0]
        o = rng.choice(targets)
        N = len(w.objs[o]._position)
        kinds = cfg["kinds"]
        if N > 40:  # keep paths bounded
            kinds = ["setter", "reset"]
        op = pathops.gen_path_op(rng, o, N, kinds=kinds, forms=cfg["forms"], wild=cfg["wild_start"],
                                 alias=cfg.get("alias", True))
        if cfg.get("alias", True) and rng.random() < 0.04:
            return {"op": "iadd_position", "o": o, "d": gen.vec3(rng)}
        if cfg.get("alias", True) and len(w.objs) > 1 and rng.random() < 0.1:
            j = rng.choice([k for k in range(len(w.objs)) if k != o])
            tok = pathops.posof_token(rng, j, len(w.objs[j]._position))
            if op["op"] == "set_position":
                op["v"] = tok  # a.position = b.position: a live view of b's path
            elif op["op"] == "rotate":
                op["anchor"] = tok
            elif op["op"] == "move":
                op["d"] = tok
        return op

    def simplify_op(self, op):
        yield from simplify_path_op(op)

    def simplify_spec(self, spec, ops):
        yield from generic_simplify_spec(spec, ops)

    def simplify_cfg(self, cfg):
        if cfg.get("rejects"):
            yield dict(cfg, rejects=False)


def simplify_path_op(op):
    k = op["op"]
    if k in ("move", "rotate"):
        if op.get("start") != "auto":
            yield dict(op, start="auto")
            if isinstance(op["start"], int) and abs(op["start"]) > 1:
                yield dict(op, start=op["start"] - (1 if op["start"] > 0 else -1))
        if k == "rotate":
            if op.get("anchor") is not None:
                yield dict(op, anchor=None)
                a = op["anchor"]
                if isinstance(a, list) and a and isinstance(a[0], list) and len(a) > 1:
                    yield dict(op, anchor=a[:-1])
            if "degrees" in op and not op["degrees"]:
                yield dict(op, degrees=True)
        for key in ("d", "rv", "angle"):
            v = op.get(key)
            if isinstance(v, list) and v and isinstance(v[0], list) and len(v) > 1 and op.get("form") != "euler":
                yield dict(op, **{key: v[:-1]})
            if key == "angle" and isinstance(v, list) and len(v) > 1 and op.get("form") == "angax":
                yield dict(op, angle=v[:-1])
        if k == "move" and isinstance(op["d"], list) and isinstance(op["d"][0], list) is False \
                and op["d"] != [1.0, 0.0, 0.0]:
            yield dict(op, d=[1.0, 0.0, 0.0])
    if k == "set_position":
        v = op["v"]
        if isinstance(v, list) and isinstance(v[0], list) and len(v) > 1:
            yield dict(op, v=v[:-1])
    if k == "set_orientation":
        r = op["r"]
        if r is not None and isinstance(r[0], list) and len(r) > 1:
            yield dict(op, r=r[:-1])
