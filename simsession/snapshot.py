"""Non-perturbing, address-free canonical snapshots (DESIGN.md §2.6).

A snapshot is obtained by a generic walk over ``vars(obj)`` so that an attribute nobody
thought of listing is still compared.  It never touches lazy properties (``obj.style``
creates the style): private attributes are read, and "pending style kwargs" and
"initialised style" are canonicalised to the same effective encoding on a throw-away style.
"""
from __future__ import annotations

import functools
import types

import numpy as np
from scipy.spatial.transform import Rotation

from .core import HarnessError, canon, digest
from .world import Opaque

_STYLE_CACHE = {}


def _is_mag_obj(x):
    return hasattr(x, "_position") and hasattr(x, "_orientation") and hasattr(x, "_parent")


def _is_magic(x):
    from magpylib._src.defaults.defaults_utility import MagicProperties

    return isinstance(x, MagicProperties)


def enc(x, index_of, depth=0):
    """Encode x into nested lists/dicts of str/int/bool/None (bytes as hex strings)."""
    if depth > 40:
        raise HarnessError("snapshot recursion too deep")
    if x is None or isinstance(x, (bool, str)):
        return x
    if isinstance(x, int):
        return x
    if isinstance(x, float):
        return "f:" + x.hex()
    if isinstance(x, np.ndarray):
        if x.dtype == object:
            return ["ndo", list(x.shape), [enc(v, index_of, depth + 1) for v in x.ravel().tolist()]]
        return ["nd", x.dtype.str, list(x.shape), np.ascontiguousarray(x).tobytes().hex()]
    if isinstance(x, np.generic):
        return ["ns", x.dtype.str, x.tobytes().hex()]
    if isinstance(x, Rotation):
        q = x.as_quat()
        return ["rot", bool(x.single), list(q.shape), np.ascontiguousarray(q).tobytes().hex()]
    if isinstance(x, (list, tuple)):
        return [type(x).__name__, [enc(v, index_of, depth + 1) for v in x]]
    if isinstance(x, dict):
        out = {}
        for k, v in x.items():
            if not isinstance(k, str):
                k = "k:" + canon(enc(k, index_of, depth + 1))
            out[k] = enc(v, index_of, depth + 1)
        return {"dict": out}
    if _is_mag_obj(x):
        i = index_of(x)
        return ["obj", i if i is not None else "ext:" + type(x).__name__]
    if _is_magic(x):
        return {"magic:" + type(x).__name__: {k: enc(v, index_of, depth + 1) for k, v in sorted(vars(x).items())}}
    if isinstance(x, Opaque):
        return ["opaque", x.token]
    if isinstance(x, functools.partial):
        return ["partial", enc(x.func, index_of, depth + 1), enc(list(x.args), index_of, depth + 1),
                enc(dict(x.keywords), index_of, depth + 1)]
    if isinstance(x, (types.FunctionType, types.BuiltinFunctionType)):
        return ["fn", getattr(x, "__module__", None), getattr(x, "__qualname__", repr(type(x)))]
    if isinstance(x, types.MethodType):
        return ["meth", enc(x.__self__, index_of, depth + 1), x.__func__.__qualname__]
    raise HarnessError(f"snapshot: no encoder for {type(x)!r}")


def _style_enc(obj, index_of):
    style = getattr(obj, "_style", None)
    kwargs = getattr(obj, "_style_kwargs", None) or {}
    cls = obj._style_class
    if style is None:
        try:
            key = (cls.__name__, canon(kwargs))
        except TypeError:
            key = None
        if key is not None and key in _STYLE_CACHE:
            return _STYLE_CACHE[key]
        try:
            tmp = cls()
            if kwargs:
                tmp.update(dict(kwargs))
            out = enc(tmp, index_of)
        except Exception as e:  # invalid pending kwargs: keep them visible as they are
            out = {"pending_invalid": enc(dict(kwargs), index_of), "err": type(e).__name__}
        if key is not None:
            _STYLE_CACHE[key] = out
        return out
    if kwargs:
        try:
            tmp = style.copy()
            tmp.update(dict(kwargs))
            return enc(tmp, index_of)
        except Exception as e:
            return {"style": enc(style, index_of), "pending_invalid": enc(dict(kwargs), index_of),
                    "err": type(e).__name__}
    return enc(style, index_of)


def snap_obj(obj, index_of, with_style=True, strict_style=False):
    out = {"cls": type(obj).__name__}
    for k, v in sorted(vars(obj).items()):
        if k in ("_style", "_style_kwargs"):
            continue
        out[k] = enc(v, index_of)
    if with_style:
        out["style"] = _style_enc(obj, index_of)
    if strict_style:
        # whether the lazily created style object exists is observable (copy() labels the copy of an
        # object that has a style object): a pure read such as a field computation must not change it
        out["style_materialised"] = getattr(obj, "_style", None) is not None
        out["style_pending"] = enc(dict(getattr(obj, "_style_kwargs", None) or {}), index_of)
    return out


def snap_world(world, with_style=True, extra=None, strict_style=False):
    """Snapshot of all pool objects (+ optional extra named values, e.g. caller arrays)."""
    idx = world.index
    s = {"objs": [snap_obj(o, idx, with_style, strict_style) for o in world.objs]}
    if extra:
        s["extra"] = {k: enc(v, idx) for k, v in extra.items()}
    return s


def first_diff(a, b, path=""):
    """Path of the first difference between two encodings, or None."""
    if type(a) is not type(b):
        return path or "<root>"
    if isinstance(a, dict):
        for k in sorted(set(a) | set(b)):
            if k not in a or k not in b:
                return f"{path}.{k}"
            d = first_diff(a[k], b[k], f"{path}.{k}")
            if d:
                return d
        return None
    if isinstance(a, list):
        if len(a) != len(b):
            return path + ".len"
        for i, (x, y) in enumerate(zip(a, b)):
            d = first_diff(x, y, f"{path}[{i}]")
            if d:
                return d
        return None
    return None if a == b else (path or "<root>")


def describe_diff(a, b):
    """Human-friendly: which object / attribute differs; tolerant to any structure."""
    p = first_diff(a, b)
    return p


def sdigest(s):
    return digest(canon(s))[:16]
