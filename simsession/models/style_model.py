"""Four-layer reference model of style resolution (DESIGN.md §3 C20).

Layers, highest precedence first: show() keyword, the object's own style, the defaults of the
object's families (most specific family first), the base defaults.  Leaf NAMES and the value of
a freshly constructed style are introspected from the library; VALUES come from the hand-written
table below and from the frozen copy of the documented defaults (defaults_frozen.json).
"""
from __future__ import annotations

import json
import os

_HERE = os.path.dirname(os.path.abspath(__file__))

# general -> specific (later wins), as documented: family styles refine the base style
FAMILIES = {
    "Cuboid": ["magnet"], "Cylinder": ["magnet"], "CylinderSegment": ["magnet"], "Sphere": ["magnet"],
    "Tetrahedron": ["magnet"], "TriangularMesh": ["magnet", "triangularmesh"], "Triangle": ["magnet", "triangle"],
    "Circle": ["current"], "Polyline": ["current"], "Dipole": ["dipole"], "Sensor": ["sensor"],
    "Collection": [], "CustomSource": [], "MagpyMarkers": ["markers"],
}
DEFAULT_FAMILIES = ["base", "magnet", "current", "sensor", "dipole", "triangle", "triangularmesh", "markers"]

COLORS = ["red", "blue", "green", "#00ff00", "#123456", "black"]
# other documented ways of writing a colour and the value the library documents to store for them:
# "A hex string", "A rgb string (e.g. 'rgb(185,204,255)')", "A rgb tuple (e.g. (120,125,126))",
# matplotlib style float tuples scaled 0-1, and the one-letter names
COLOR_FORMS = [
    ([0, 0, 1], "#000001"), ([0.0, 0.0, 1.0], "#0000ff"), ([1, 0, 0], "#010000"), ([1.0, 0.0, 0.0], "#ff0000"),
    ([120, 125, 126], "#787d7e"), ([0.0, 0.0, 1.0, 1], "#0000ff"), ([0, 0, 1, 1.0], "#000001"),
    ([0, 0, 1, 1], "#000001"), ([1.0, 0.0, 0.0, 0.5], "#ff0000"), ("r", "red"), ("k", "black"), ("#FF00AA", "#ff00aa"), ("rgb(1,2,3)", "#010203"),
]


def stored(leaf, value):
    """the value the documentation says is stored for an input value (colours are normalised)"""
    if kind_of(leaf) == "color":
        for inp, out in COLOR_FORMS:
            if type(value) is type(inp) and value == inp and \
                    (not isinstance(inp, list) or [type(x) for x in value] == [type(x) for x in inp]):
                return out
    return norm(value)


def is_alias(leaf):
    """the deprecated alias magnetization.size is another way of WRITING magnetization.arrow.size"""
    return leaf.endswith("magnetization_size")


def alias_target(leaf):
    return leaf[: -len("size")] + "arrow_size"


def kind_of(leaf):
    parts = leaf.split("_")
    last = parts[-1]
    if leaf in ("label", "description_text", "legend_text") or leaf.endswith(("_label", "description_text",
                                                                              "legend_text")):
        return "text"
    if last == "colorsequence":
        return "colorsequence"
    if last in ("color", "north", "south", "middle"):
        return "color"
    if last in ("show", "numbering", "showdefault"):
        return "bool"
    if last in ("size", "width"):
        return "posnum"
    if leaf.endswith("orientation_offset"):
        # class docstring says [0,1], the setter documents and enforces only "a valid number":
        # inconsistent documentation, so only non-numbers count as clearly invalid (DESIGN.md)
        return "number"
    if last in ("offset", "transition", "opacity"):
        return "unit"
    if last == "sizemode":
        return "sizemode"
    if last == "symbol":
        return "orientation_symbol" if "orientation" in parts else "symbol"
    if last == "style":
        return "linestyle"
    if leaf.endswith("magnetization_mode"):
        return "magmode"
    if leaf.endswith("color_mode"):
        return "colormode"
    if last == "frames":
        return "frames"
    if last == "pivot":
        return "pivot"
    if last == "data":
        return "data"
    return None


VALID = {
    "text": ["a", "bb", "c3", ""],
    "color": COLORS,
    "bool": [True, False],
    "posnum": [1, 2, 3.5, 0.5, 0],
    "unit": [0, 0.25, 0.5, 1],
    "number": [0, 0.25, 0.5, 1],
    "sizemode": ["scaled", "absolute"],
    "symbol": ["o", "x", "s", "+"],
    "orientation_symbol": ["arrow3d", "cone"],
    "linestyle": ["solid", "dashed", "dotted"],
    "magmode": ["auto", "arrow", "color", "arrow+color"],
    "colormode": ["tricolor", "bicolor", "tricycle"],
    "frames": [1, 2, [0, 1]],
    "pivot": ["middle", "tail", "tip"],
    "colorsequence": [["red", "blue"], ["green", "black", "red"]],
}
# clearly invalid per the docstrings of the style classes
INVALID = {
    "color": ["notacolor", [0, 0.0, 1.0], [0.5, 1, 0]],
    "bool": ["yes", 2],
    "posnum": [-1, "big"],
    "unit": [2, -0.5, "x"],
    "number": ["x"],
    "sizemode": ["huge"],
    "symbol": ["Q"],
    "orientation_symbol": ["Q"],
    "linestyle": ["wavy"],
    "magmode": ["blah"],
    "colormode": ["quadcolor"],
    "pivot": ["left"],
    "colorsequence": [["notacolor"]],
}


def norm(v):
    """values as the model compares them: sequences as lists"""
    if isinstance(v, tuple):
        return [norm(x) for x in v]
    if isinstance(v, list):
        return [norm(x) for x in v]
    return v


def load_frozen_defaults():
    with open(os.path.join(_HERE, "defaults_frozen.json")) as f:
        d = json.load(f)["style"]
    return {k: norm(v) for k, v in d.items() if not is_alias(k)}


def load_frozen_display():
    """the documented non-style display defaults (backend, animation.*, colorsequence, autosizefactor)"""
    with open(os.path.join(_HERE, "defaults_frozen.json")) as f:
        return {k: norm(v) for k, v in json.load(f)["display"].items()}


DISPLAY_VALID = {
    "animation_fps": [10, 25], "animation_maxfps": [20, 40], "animation_maxframes": [100, 150],
    "animation_time": [3, 8], "animation_slider": [False, True], "backend": ["plotly", "matplotlib", "auto"],
    "autosizefactor": [5, 20], "colorsequence": [["red", "blue"], ["green", "black", "red"]],
}
DISPLAY_INVALID = {
    "animation_fps": [-1, "fast"], "animation_maxfps": [0, "x"], "animation_slider": ["yes"],
    "backend": ["nobackend"], "autosizefactor": [-2, "big"], "colorsequence": [["notacolor"]],
}


# Leaves that the style classes construct with a hard coded value instead of None (Pixel(size=1),
# ArrowSingle(show=True), Model3d(showdefault=True)).  Under the property as worded ("else the object's own
# style") that value IS the object's own value and wins over the family / base defaults, which can therefore
# never take effect for these leaves - observed, counted (probe), not flagged: DESIGN.md section 10.
CLASS_DEFAULT = {"pixel_size": 1, "arrows_x_show": True, "arrows_y_show": True, "arrows_z_show": True,
                 "model3d_showdefault": True}


class StyleModel:
    def __init__(self):
        self.D = load_frozen_defaults()  # "fam_leaf" -> value
        self.display = load_frozen_display()  # non-style display settings
        self.S = []  # per object: leaf -> value (own style; None = not set)
        self.cls = []

    def add_object(self, cls, fresh_flat):
        self.cls.append(cls)
        self.S.append({k: norm(v) for k, v in fresh_flat.items() if not is_alias(k)})
        return len(self.S) - 1

    def reset_defaults(self):
        self.D = load_frozen_defaults()
        self.display = load_frozen_display()

    def set_obj(self, i, leaf, value):
        if is_alias(leaf):
            leaf = alias_target(leaf)
        if leaf not in self.S[i]:
            raise KeyError(leaf)
        self.S[i][leaf] = stored(leaf, value)

    def set_default(self, fam, leaf, value):
        if is_alias(leaf):
            leaf = alias_target(leaf)
        k = fam + "_" + leaf
        if k not in self.D:
            raise KeyError(k)
        self.D[k] = stored(leaf, value)

    def default_for(self, cls, leaf):
        val = self.D.get("base_" + leaf)
        for fam in FAMILIES.get(cls, []):
            v = self.D.get(fam + "_" + leaf)
            if v is not None:
                val = v
        return val

    def effective(self, i, leaf, show_kw=None):
        if show_kw and leaf in show_kw:
            return stored(leaf, show_kw[leaf])
        own = self.S[i].get(leaf)
        if own is not None:
            return own
        return self.default_for(self.cls[i], leaf)

    def holds_class_default(self, i, leaf):
        return leaf in CLASS_DEFAULT and self.S[i].get(leaf) == CLASS_DEFAULT[leaf] and \
            type(self.S[i].get(leaf)) is type(CLASS_DEFAULT[leaf])

    def copy_object(self, i):
        self.cls.append(self.cls[i])
        self.S.append(dict(self.S[i]))
        return len(self.S) - 1
