"""Reference model of the documented path semantics (DESIGN.md §3 C09).

Written from docs/_pages/user_guide/docs/docs_pos_ori.md and the move/rotate docstrings, not from
class_BaseTransform.py.  A path is a list of (position, unit quaternion [x,y,z,w]).
Own quaternion algebra; no SciPy in here.
"""
from __future__ import annotations

import numpy as np


def qmul(a, b):
    """Hamilton product a*b for scalar-last quaternions (rotation b first, then a)."""
    x1, y1, z1, w1 = a
    x2, y2, z2, w2 = b
    return np.array([
        w1 * x2 + x1 * w2 + y1 * z2 - z1 * y2,
        w1 * y2 - x1 * z2 + y1 * w2 + z1 * x2,
        w1 * z2 + x1 * y2 - y1 * x2 + z1 * w2,
        w1 * w2 - x1 * x2 - y1 * y2 - z1 * z2,
    ])


def qconj(q):
    return np.array([-q[0], -q[1], -q[2], q[3]])


def qrot(q, v):
    x, y, z, w = q
    u = np.array([x, y, z])
    return v + 2.0 * np.cross(u, np.cross(u, v) + w * v)


def qangle(a, b):
    """rotation angle between two unit quaternions (sign-insensitive)"""
    d = abs(float(np.dot(a, b)))
    n = float(np.linalg.norm(a) * np.linalg.norm(b))
    c = min(1.0, d / n) if n else 0.0
    # accurate for small angles: use the vector part of the relative rotation
    rel = qmul(a, qconj(b))
    s = float(np.linalg.norm(rel[:3])) / n if n else 0.0
    return 2.0 * np.arctan2(s, c)


def resolve(start, N, n, scalar):
    """-> (pad_before, pad_behind, first index in the padded path)"""
    if start == "auto":
        start = 0 if scalar else N
    pb = pe = 0
    if start < 0:
        start += N
        if start < 0:
            pb = -start
            start = 0
    if start + n > N + pb:
        pe = start + n - (N + pb)
    return pb, pe, start


def pad_index_map(N, pb, pe):
    """for each index of the padded path the index of the old path it was copied from"""
    return [0] * pb + list(range(N)) + [N - 1] * pe


def setter_index_map(N_old, N_new):
    """edge-pad at the end, or keep the END (end-slicing) of the other path"""
    if N_new >= N_old:
        return list(range(N_old)) + [N_old - 1] * (N_new - N_old)
    return list(range(N_old - N_new, N_old))


class PathModel:
    def __init__(self, P=None, Q=None):
        self.P = [np.zeros(3)] if P is None else [np.array(p, float) for p in P]
        self.Q = [np.array([0.0, 0.0, 0.0, 1.0])] if Q is None else [np.array(q, float) for q in Q]

    def __len__(self):
        return len(self.P)

    def copy(self):
        return PathModel(self.P, self.Q)

    def _pad(self, start, n, scalar):
        N = len(self.P)
        pb, pe, st = resolve(start, N, n, scalar)
        m = pad_index_map(N, pb, pe)
        self.P = [self.P[i].copy() for i in m]
        self.Q = [self.Q[i].copy() for i in m]
        return pb, pe, st

    def move(self, d, start="auto"):
        d = np.array(d, float)
        scalar = d.ndim == 1
        n = 1 if scalar else len(d)
        pb, pe, st = self._pad(start, n, scalar)
        if scalar:
            for i in range(st, len(self.P)):
                self.P[i] = self.P[i] + d
        else:
            for j in range(n):
                self.P[st + j] = self.P[st + j] + d[j]
        return pb, pe

    @staticmethod
    def broadcast_anchor(q, anchor):
        """per-step anchors and a scalar rotation (or vice versa) are edge-padded to the longer one"""
        q = np.array(q, float)
        a = None if anchor is None else np.array(anchor, float)
        if a is not None and a.ndim == 2:
            if q.ndim == 1:
                q = np.tile(q, (len(a), 1))
            elif len(a) < len(q):
                a = np.concatenate([a, np.tile(a[-1], (len(q) - len(a), 1))])
            elif len(a) > len(q):
                q = np.concatenate([q, np.tile(q[-1], (len(a) - len(q), 1))])
        return q, a

    def rotate(self, q, anchor=None, start="auto", self_anchor=False):
        """q: (4,) or (n,4) unit quaternions; anchor None | (3,) | (n,3).
        self_anchor is not used by plain objects (anchor None = rotate about own position)."""
        q, a = self.broadcast_anchor(q, anchor)
        scalar = q.ndim == 1
        n = 1 if scalar else len(q)
        pb, pe, st = self._pad(start, n, scalar)
        idx = range(st, len(self.P)) if scalar else range(st, st + n)
        for j, i in enumerate(idx):
            qq = q if scalar else q[j]
            if a is not None:
                aa = a if a.ndim == 1 else a[j]
                self.P[i] = aa + qrot(qq, self.P[i] - aa)
            self.Q[i] = qmul(qq, self.Q[i])
        return pb, pe

    def set_position(self, p):
        p = np.array(p, float).reshape(-1, 3)
        m = setter_index_map(len(self.Q), len(p))
        self.P = [x.copy() for x in p]
        self.Q = [self.Q[i].copy() for i in m]

    def set_orientation(self, q):
        q = np.array(q, float).reshape(-1, 4)
        m = setter_index_map(len(self.P), len(q))
        self.Q = [x.copy() for x in q]
        self.P = [self.P[i].copy() for i in m]

    def reset(self):
        self.P = [np.zeros(3)]
        self.Q = [np.array([0.0, 0.0, 0.0, 1.0])]

    # comparison -------------------------------------------------------------------
    def compare(self, position, quats, tol=1e-9):
        """-> None if equal within tol, else a short description"""
        P = np.array(self.P)
        if position.shape != P.shape:
            return f"path length {len(position)} != model {len(P)}"
        if len(quats) != len(self.Q):
            return f"orientation path length {len(quats)} != model {len(self.Q)}"
        e = float(np.abs(P - position).max())
        if not e <= tol:
            i = int(np.argmax(np.abs(P - position).max(axis=1)))
            return f"position differs by {e:.3g} at path index {i}"
        for i, (a, b) in enumerate(zip(self.Q, quats)):
            ang = qangle(a, b)
            if not ang <= tol:
                return f"orientation differs by {ang:.3g} rad at path index {i}"
        return None
