"""Shared value generators.  All numbers come from small exact grids (DESIGN.md §2.2)."""
from __future__ import annotations

SOURCE_CLASSES = ["Cuboid", "Cylinder", "CylinderSegment", "Sphere", "Tetrahedron", "TriangularMesh",
                  "Triangle", "Circle", "Polyline", "Dipole", "CustomSource"]
CHEAP_SOURCES = ["Cuboid", "Sphere", "Dipole", "Circle", "Cylinder"]
PIXELS = [None, "p3", "p23", "p223", "p13"]


def g8(rng, lo=-4.0, hi=4.0):
    """multiple of 1/8 in [lo, hi]"""
    return rng.randint(int(lo * 8), int(hi * 8)) / 8.0


def vec3(rng, lo=-4.0, hi=4.0):
    return [g8(rng, lo, hi) for _ in range(3)]


def nz_vec3(rng, lo=-2.0, hi=2.0):
    while True:
        v = vec3(rng, lo, hi)
        if any(v):
            return v


def path(rng, n, lo=-4.0, hi=4.0):
    return [vec3(rng, lo, hi) for _ in range(n)]


def rotvec_deg(rng):
    """rotation vector in degrees, components multiples of 7.5"""
    return [rng.randint(-12, 12) * 7.5 for _ in range(3)]


def rotvecs(rng, n):
    return [rotvec_deg(rng) for _ in range(n)]


def pos_dim(rng, lo=0.25, hi=2.0):
    return g8(rng, lo, hi)


def pixel(rng, kind):
    if kind is None:
        return None
    if kind == "p3":
        return vec3(rng, -1, 1)
    if kind == "p13":
        return [vec3(rng, -1, 1)]
    if kind == "p23":
        return [vec3(rng, -1, 1) for _ in range(2)]
    if kind == "p223":
        return [[vec3(rng, -1, 1) for _ in range(2)] for _ in range(2)]
    raise ValueError(kind)


TETRA = [[0, 0, 0], [1, 0, 0], [0, 1, 0], [0, 0, 1]]


def tetra_vertices(rng):
    s = rng.choice([0.5, 1.0, 1.5])
    off = vec3(rng, -1, 1)
    v = [[off[j] + s * p[j] for j in range(3)] for p in TETRA]
    if rng.random() < 0.5:  # the other chirality
        v[0], v[1] = v[1], v[0]
    return v


def source_kw(rng, cls, half_init=0.0):
    """constructor kwargs (JSON) of a source of class cls"""
    kw = {}
    exc = "polarization" if rng.random() < 0.7 else "magnetization"

    def excite():
        if rng.random() >= half_init:
            kw[exc] = nz_vec3(rng) if exc == "polarization" else [x * 1000.0 for x in nz_vec3(rng)]

    def maybe(name, val):
        if rng.random() >= half_init:
            kw[name] = val

    if cls == "Cuboid":
        excite()
        maybe("dimension", [pos_dim(rng) for _ in range(3)])
    elif cls == "Cylinder":
        excite()
        maybe("dimension", [pos_dim(rng), pos_dim(rng)])
    elif cls == "CylinderSegment":
        excite()
        r1 = g8(rng, 0.0, 1.0)
        phi1 = rng.choice([-90.0, 0.0, 30.0, 45.0])
        maybe("dimension", [r1, r1 + pos_dim(rng, 0.25, 1.5), pos_dim(rng), phi1,
                            phi1 + rng.choice([45.0, 90.0, 180.0, 360.0])])
    elif cls == "Sphere":
        excite()
        maybe("diameter", pos_dim(rng))
    elif cls == "Tetrahedron":
        excite()
        maybe("vertices", tetra_vertices(rng))
    elif cls == "TriangularMesh":
        excite()
        kw["vertices"] = tetra_vertices(rng)
        kw["faces"] = [[0, 1, 2], [0, 1, 3], [0, 2, 3], [1, 2, 3]]
        # construction options: the mesh checks can be skipped (status caches stay None until needed),
        # and the mesh may be open (a face missing)
        if rng.random() < 0.5:
            for opt in ("check_open", "check_disconnected", "check_selfintersecting", "reorient_faces"):
                if rng.random() < 0.6:
                    kw[opt] = "skip"
        if rng.random() < 0.2:
            kw["faces"] = kw["faces"][:3]
            for opt in ("check_open", "reorient_faces"):
                kw.setdefault(opt, rng.choice(["skip", "warn"]))
    elif cls == "Triangle":
        excite()
        maybe("vertices", tetra_vertices(rng)[:3])
    elif cls == "Circle":
        maybe("current", g8(rng, -2, 2))
        maybe("diameter", pos_dim(rng))
    elif cls == "Polyline":
        maybe("current", g8(rng, -2, 2))
        n = rng.randint(2, 5)
        verts = path(rng, n, -1, 1)
        if n >= 3 and rng.random() < 0.2:
            # a documented line break (None, None, None), or - rarely - a row that is only partly NaN
            verts[rng.randint(1, n - 2)] = [None, None, None] if rng.random() < 0.6 else \
                [None, verts[1][1], verts[1][2]]
        maybe("vertices", verts)
    elif cls == "Dipole":
        maybe("moment", nz_vec3(rng))
    elif cls == "CustomSource":
        if rng.random() >= half_init:  # a custom source without field function is legal to construct
            kw["field_func"] = rng.choice(["cb0", "cb1", "cb2", "cb3"])
    else:
        raise ValueError(cls)
    return kw


def obj_spec(rng, cls, path_len=1, half_init=0.0, pixel_kind=None):
    spec = {"cls": cls}
    if cls == "Sensor":
        kw = {}
        px = pixel(rng, pixel_kind)
        if px is not None:
            kw["pixel"] = px
        if rng.random() < 0.3:
            kw["handedness"] = "left"
        spec["kw"] = kw
    elif cls == "Collection":
        spec["kw"] = {}
    else:
        spec["kw"] = source_kw(rng, cls, half_init)
    if cls == "TriangularMesh" and rng.random() < 0.3:
        spec["ctor"] = rng.choice(["from_ConvexHull", "from_triangles", "from_mesh"])
        if spec["ctor"] == "from_ConvexHull":
            spec["kw"]["faces"] = [[0, 1, 2], [0, 1, 3], [0, 2, 3], [1, 2, 3]]  # the hull of a tetrahedron is closed
    if path_len >= 1:
        r = rng.random()
        if path_len == 1 and r < 0.3:
            pass  # default pose
        else:
            spec["pos"] = path(rng, path_len) if (path_len > 1 or rng.random() < 0.5) else vec3(rng)
            if rng.random() < 0.8:
                n_rot = path_len if rng.random() < 0.7 else 1
                if path_len > 2 and rng.random() < 0.25:
                    n_rot = rng.randint(2, path_len - 1)  # shorter than the position path: edge-padded at init
                spec["rot"] = rotvecs(rng, n_rot)
                if path_len > 2 and n_rot == path_len and rng.random() < 0.15:
                    spec["pos"] = path(rng, rng.randint(2, path_len - 1))  # ... or the position path is shorter
    return spec
