"""Path operations as data: generation, execution on real objects, on the reference model,
equivalent rotations of the rotate_from_* forms, and rejection variants (C09, C10, C18)."""
from __future__ import annotations

import copy
import warnings

import numpy as np
from scipy.spatial.transform import Rotation as R

from . import gen
from .core import HarnessError

FORMS = ["rotation", "angax", "rotvec", "euler", "matrix", "mrp", "quat", "none"]
EULER_SEQS = ["z", "x", "y", "xyz", "zyx", "ZYX", "XZ", "yx", "zxz"]
AXES = ["x", "y", "z"]


# ----------------------------------------------------------------------------- generation
def gen_start(rng, N, wild=True):
    r = rng.random()
    if r < 0.35:
        return "auto"
    if not wild:
        return rng.randint(-N, N - 1) if N else 0
    if r < 0.5:
        return rng.choice([0, N, -N, N - 1, -1])
    return rng.randint(-N - 3, N + 3)


SELFPOS = "$selfpos"  # the object's own `position` attribute (a view of its internal path array)
# {"posof": j}: the `position` attribute of pool object j (again a live view, not a copy)


def is_selfpos(x):
    return isinstance(x, str) and x == SELFPOS


def is_posof(x):
    return isinstance(x, dict) and "posof" in x


def materialise(op, getter):
    """replace {"posof": j} tokens in d / anchor / v by getter(j) (a live ndarray view for the real
    object, a plain list for the reference model)"""
    out = None
    for key in ("d", "anchor", "v"):
        tok = op.get(key)
        if is_posof(tok):
            if out is None:
                out = dict(op)
            val = getter(tok["posof"])
            wrap = tok.get("wrap")
            if wrap == "list":      # [child.position]: a list wrapping a live view
                val = [val]
            elif wrap == "tuple":
                val = (val,)
            elif wrap == "rev":     # child.position[::-1]: another live view of the same buffer
                val = val[::-1]
            out[key] = val
    return out if out is not None else op


def posof_token(rng, j, N_j):
    """a {"posof": j} token, sometimes wrapped (the wrapped forms are still live views)"""
    tok = {"posof": j}
    r = rng.random()
    if N_j == 1 and r < 0.3:
        tok["wrap"] = rng.choice(["list", "tuple"])
    elif N_j > 1 and r < 0.3:
        tok["wrap"] = "rev"
    return tok


def gen_anchor(rng, nvec, alias=False):
    r = rng.random()
    if alias and r < 0.12:
        return SELFPOS
    if r < 0.3:
        return None
    if r < 0.45:
        return 0
    if r < 0.75:
        return gen.vec3(rng)
    return gen.path(rng, rng.choice([1, 2, 3, max(1, nvec)]))


def gen_move(rng, o, N, max_vec=4, wild=True, alias=False):
    scalar = rng.random() < 0.5
    n = rng.randint(1, max_vec)
    d = gen.vec3(rng) if scalar else gen.path(rng, n)
    if alias and rng.random() < 0.06:
        # a real but tiny displacement
        tiny = lambda: rng.choice([1e-9, -1e-7, 0.0, 1e-12])  # noqa: E731
        d = [tiny(), tiny(), 1e-8] if scalar else [[tiny(), 1e-9, tiny()] for _ in range(n)]
    if alias and rng.random() < 0.08:
        d = SELFPOS  # obj.move(obj.position): the input aliases the path that is being modified
    return {"op": "move", "o": o, "d": d, "start": gen_start(rng, N, wild)}


def gen_rotate(rng, o, N, forms=FORMS, max_vec=4, wild=True, alias=False):
    form = rng.choice(forms)
    scalar = rng.random() < 0.5
    n = rng.randint(1, max_vec)
    op = {"op": "rotate", "o": o, "form": form, "start": gen_start(rng, N, wild)}
    if form == "none":
        # rotate(None): "None input is interpreted as unit rotation" - scalar input
        op["anchor"] = gen_anchor(rng, 1, alias)
        return op
    if form == "angax":
        if rng.random() < 0.15:
            # several full turns, in either unit (wave 10, C09_m: whole "360-unit" turns dropped before the conversion)
            def big():
                return rng.choice([-1, 1]) * rng.randint(721, 6000) * 0.5

            op["angle"] = big() if scalar else [big() if rng.random() < 0.6 else rng.randint(-24, 24) * 7.5
                                                for _ in range(n)]
        else:
            op["angle"] = rng.randint(-24, 24) * 7.5 if scalar else [rng.randint(-24, 24) * 7.5 for _ in range(n)]
        op["axis"] = rng.choice(AXES) if rng.random() < 0.5 else gen.nz_vec3(rng)
        op["degrees"] = rng.random() < 0.7
    elif form == "euler":
        seq = rng.choice(EULER_SEQS)
        if rng.random() < 0.5:  # any valid sequence: 1-3 axes, no axis twice in a row, extrinsic or intrinsic
            axes = []
            for _ in range(rng.randint(1, 3)):
                axes.append(rng.choice([a for a in "xyz" if not axes or a != axes[-1]]))
            seq = "".join(axes)
            if rng.random() < 0.5:
                seq = seq.upper()
        k = len(seq)

        def one():
            a = [rng.randint(-11, 11) * 7.5 for _ in range(k)]
            if k == 3:  # stay away from gimbal lock, where scipy warns and picks a representative
                a[1] = rng.choice([-60.0, -37.5, 15.0, 22.5, 45.0, 67.5])
            return a if k > 1 else a[0]

        op["seq"] = seq
        # vector input for a single axis: the documented shape (n,) or, equivalently, (n,1)
        flat = rng.random() < 0.5
        op["angle"] = one() if scalar else [(one() if (k > 1 or flat) else [one()]) for _ in range(n)]
        op["degrees"] = rng.random() < 0.7
    else:
        op["rv"] = gen.rotvec_deg(rng) if scalar else gen.rotvecs(rng, n)
        if form == "rotvec":
            op["degrees"] = rng.random() < 0.7
        if form == "quat":
            op["qscale"] = rng.choice([1.0, 1.0, 2.0, -1.0, 0.5])
    nvec = 1 if scalar else n
    op["anchor"] = gen_anchor(rng, nvec, alias)
    return op


def gen_setter(rng, o, N, max_len=5, alias=False):
    L = rng.choice([N, N, 1, rng.randint(1, max_len)])
    if alias and rng.random() < 0.06:
        return {"op": "set_position", "o": o, "v": SELFPOS}
    if alias and rng.random() < 0.08:
        # re-assign exactly the current path, or the current path edge-padded by k entries (zero displacement)
        k = rng.choice([0, 1, 2, 3])
        if rng.random() < 0.5:
            return {"op": "set_position", "o": o, "v": "$pad", "k": k}
        return {"op": "set_orientation", "o": o, "r": "$pad", "k": k}
    if alias and rng.random() < 0.12:
        # re-assign almost the current value: the current path changed by a tiny displacement / rotation
        if rng.random() < 0.5:
            return {"op": "set_position", "o": o, "v": "$near", "eps": [rng.choice([1e-6, -1e-7, 1e-9]), 0.0,
                                                                      rng.choice([0.0, 1e-7])]}
        return {"op": "set_orientation", "o": o, "r": "$near", "eps": [0.0, rng.choice([5e-6, 1e-7, -1e-8]), 0.0]}
    if rng.random() < 0.5:
        v = gen.path(rng, L)
        if L == 1 and rng.random() < 0.5:
            v = v[0]
        return {"op": "set_position", "o": o, "v": v}
    if rng.random() < 0.1:
        return {"op": "set_orientation", "o": o, "r": None}
    r = gen.rotvecs(rng, L)
    if L == 1 and rng.random() < 0.5:
        r = r[0]
    return {"op": "set_orientation", "o": o, "r": r}


def fit_start(rng, N, n, scalar):
    """a start value for which an input of n entries stays inside a path of length N"""
    if scalar:
        return rng.choice(["auto"] + list(range(-N, N)))
    lo, hi = 0, N - n
    s = rng.randint(lo, hi)
    return s if rng.random() < 0.6 else s - N


def gen_fit_op(rng, o, N, kinds=("move", "rotate", "setter"), forms=FORMS, alias=False):
    """a length-preserving path op for an object whose path has length N"""
    k = rng.choice([x for x in kinds if x != "reset"] or ["move"])
    if alias and rng.random() < 0.04:
        return {"op": rng.choice(["set_position", "set_orientation"]), "o": o, "v": "$pad", "r": "$pad", "k": 0}
    if alias and rng.random() < 0.1:
        if rng.random() < 0.5:
            return {"op": "set_position", "o": o, "v": "$near", "eps": [rng.choice([1e-6, -1e-7, 1e-9]), 0.0, 0.0]}
        return {"op": "set_orientation", "o": o, "r": "$near", "eps": [0.0, rng.choice([5e-6, 1e-7, -1e-8]), 0.0]}
    if k == "move":
        scalar = rng.random() < 0.5 or N == 0
        n = rng.randint(1, min(4, N))
        return {"op": "move", "o": o, "d": gen.vec3(rng) if scalar else gen.path(rng, n),
                "start": fit_start(rng, N, n, scalar)}
    if k == "rotate":
        for _ in range(20):
            op = gen_rotate(rng, o, N, forms, max_vec=min(4, N), wild=False)
            nvec = op_nvec(op)
            a = op.get("anchor")
            na = len(a) if (isinstance(a, list) and a and isinstance(a[0], list)) else 0
            n = max(nvec, na)
            if n > N:
                continue
            op["start"] = fit_start(rng, N, max(n, 1), n == 0)
            return op
        return {"op": "rotate", "o": o, "form": "rotation", "rv": gen.rotvec_deg(rng), "anchor": None,
                "start": "auto"}
    if rng.random() < 0.5:
        v = gen.path(rng, N)
        return {"op": "set_position", "o": o, "v": v if N > 1 or rng.random() < 0.5 else v[0]}
    r = gen.rotvecs(rng, N)
    return {"op": "set_orientation", "o": o, "r": r if N > 1 or rng.random() < 0.5 else r[0]}


def gen_path_op(rng, o, N, kinds=("move", "rotate", "setter", "reset"), forms=FORMS, wild=True, alias=False):
    k = rng.choice(kinds)
    if k == "move":
        op = gen_move(rng, o, N, wild=wild, alias=alias)
    elif k == "rotate":
        op = gen_rotate(rng, o, N, forms, wild=wild, alias=alias)
    elif k == "setter":
        op = gen_setter(rng, o, N, alias=alias)
    else:
        return {"op": "reset_path", "o": o}
    if alias and rng.random() < 0.06 and op["op"] == "rotate" and op.get("form") in ("rotation", "rotvec", "matrix",
                                                                                      "mrp", "quat"):
        op["tiny"] = rng.choice([1e-7, 1e-9])  # a real but tiny rotation (rotation vector scaled down)
    if alias and rng.random() < 0.3:
        op["as_array"] = True  # inputs as caller-owned float64 ndarrays, overwritten after the call
    if alias and isinstance(op.get("start"), int) and rng.random() < 0.2:
        op["start_np"] = rng.choice(["int64", "int8", "int32"] + (["uint64", "uint8"] if op["start"] >= 0 else []))
    return op


def op_nvec(op):
    for k in ("d", "rv", "angle", "v", "r"):
        if k in op and op[k] is not None:
            v = op[k]
            if is_selfpos(v) or is_posof(v) or isinstance(v, str):
                return 0
            if op.get("form") == "euler":
                if isinstance(v, list) and v and not isinstance(v[0], list) and len(op["seq"]) == 1:
                    return len(v)  # (n,) angles about a single axis
                return len(v) if isinstance(v, list) and isinstance(v[0], list) else 0
            if isinstance(v, list) and v and isinstance(v[0], list):
                return len(v)
            if k == "angle" and isinstance(v, list):
                return len(v)
            return 0
    return 0


# ----------------------------------------------------------------------------- rotations
def _rv(op):
    return np.array(op["rv"], dtype=float) * op.get("tiny", 1.0)


def rotation_of(op):
    """The `equivalent rotation` of a rotate op as a scipy Rotation (used for rotate() itself and,
    through as_quat(), by the reference model).  SciPy is used only as a parametrisation converter."""
    form = op["form"]
    if form == "none":
        return R.identity()
    if form == "angax":
        ang = np.array(op["angle"], dtype=float)
        if op.get("degrees", True):
            ang_rad = ang / 180.0 * np.pi
        else:
            ang_rad = ang
        ax = op["axis"]
        if isinstance(ax, str):
            ax = {"x": [1.0, 0, 0], "y": [0, 1.0, 0], "z": [0, 0, 1.0]}[ax]
        ax = np.array(ax, dtype=float)
        ax = ax / np.linalg.norm(ax)
        if ang_rad.ndim == 0:
            return R.from_rotvec(ax * float(ang_rad))
        return R.from_rotvec(np.outer(ang_rad, ax))
    if form == "euler":
        ang = op["angle"]
        if len(op["seq"]) == 1 and isinstance(ang, list) and not isinstance(ang[0], list):
            ang = [[a] for a in ang]  # n rotations about the one axis (SciPy versions differ on the flat form)
        return R.from_euler(op["seq"], ang, degrees=op.get("degrees", True))
    return R.from_rotvec(_rv(op), degrees=True)


def call_args(op):
    """(method name, args, kwargs) for the real object"""
    form = op["form"]
    kw = {"anchor": op.get("anchor"), "start": op.get("start", "auto")}
    if form == "none":
        return "rotate", (None,), kw
    if form == "rotation":
        return "rotate", (rotation_of(op),), kw
    if form == "angax":
        return "rotate_from_angax", (op["angle"], op["axis"]), dict(kw, degrees=op.get("degrees", True))
    if form == "euler":
        return "rotate_from_euler", (op["angle"], op["seq"]), dict(kw, degrees=op.get("degrees", True))
    rot = R.from_rotvec(_rv(op), degrees=True)
    if form == "rotvec":
        if op.get("degrees", True):
            return "rotate_from_rotvec", (_rv(op).tolist(),), dict(kw, degrees=True)
        return "rotate_from_rotvec", ((_rv(op) / 180.0 * np.pi).tolist(),), dict(kw, degrees=False)
    if form == "matrix":
        return "rotate_from_matrix", (rot.as_matrix(),), kw
    if form == "mrp":
        return "rotate_from_mrp", (rot.as_mrp(),), kw
    if form == "quat":
        return "rotate_from_quat", (rot.as_quat() * op.get("qscale", 1.0),), kw
    raise HarnessError(form)


def orientation_value(r):
    """value for the orientation setter from the op's `r` (None | (3,) | (n,3) rotvec deg)"""
    if r is None:
        return None
    return R.from_rotvec(np.array(r, dtype=float), degrees=True)


# ----------------------------------------------------------------------------- execution
def _as_arrays(op):
    """op['as_array']: list-valued inputs are handed over as caller-owned float64 ndarrays; the caller
    re-uses (overwrites) its buffers right after the call, which must not reach into the object"""
    bufs = []
    out = dict(op)
    for key in ("d", "anchor", "v"):
        val = op.get(key)
        if isinstance(val, list) and val and not (op.get("bad") and op["bad"]["field"] == key):
            arr = np.array(val, dtype=np.float64)
            out[key] = arr
            bufs.append(arr)
    return out, bufs


def exec_path_op(obj, op):
    """Execute on a real magpylib object.  Returns 'ok' or 'raised:<Type>'."""
    bufs = []
    if op.get("start_np") and isinstance(op.get("start"), int) and not op.get("bad"):
        # the same integer as a NumPy scalar type (start is documented as an integer)
        op = dict(op, start=getattr(np, op["start_np"])(op["start"]))
    if op.get("as_array"):
        op, bufs = _as_arrays(op)
    try:
        return _exec_path_op(obj, op)
    finally:
        for arr in bufs:
            arr += 1000.0  # the caller scribbles over its own buffer


def _exec_path_op(obj, op):
    k = op["op"]
    try:
        with warnings.catch_warnings():
            warnings.simplefilter("ignore")
            if k == "move":
                d = op["d"]
                if is_selfpos(d):
                    d = obj.position
                obj.move(_bad(op, "d", d), start=_bad(op, "start", op.get("start", "auto")))
            elif k == "rotate":
                name, args, kw = call_args(op)
                if is_selfpos(kw.get("anchor")):
                    kw["anchor"] = obj.position
                bad = op.get("bad")
                if bad:
                    args, kw = _poison_rotate(name, list(args), dict(kw), bad)
                getattr(obj, name)(*args, **kw)
            elif k == "set_position":
                v = op["v"]
                if is_selfpos(v):
                    v = obj.position
                elif isinstance(v, str) and v == "$near":
                    v = obj._position + np.array(op["eps"], dtype=float)
                elif isinstance(v, str) and v == "$pad":
                    v = np.pad(obj._position, ((0, op["k"]), (0, 0)), "edge")
                obj.position = _bad(op, "v", v)
            elif k == "set_orientation":
                b = op.get("bad")
                if b and b["field"] == "r":
                    obj.orientation = _badval(b["value"])
                elif isinstance(op["r"], str) and op["r"] == "$near":
                    obj.orientation = R.from_rotvec(op["eps"]) * obj._orientation
                elif isinstance(op["r"], str) and op["r"] == "$pad":
                    q = obj._orientation.as_quat().reshape(-1, 4)
                    obj.orientation = R.from_quat(np.pad(q, ((0, op["k"]), (0, 0)), "edge"))
                else:
                    obj.orientation = orientation_value(op["r"])
            elif k == "reset_path":
                obj.reset_path()
            elif k == "iadd_position":
                # augmented assignment: Python evaluates it as obj.position = obj.position.__iadd__(d)
                obj.position += np.array(op["d"], dtype=float)
            else:
                raise HarnessError("not a path op: " + k)
        return "ok"
    except HarnessError:
        raise
    except Exception as e:
        return "raised:" + type(e).__name__


def _badval(v):
    """decode non-JSON values of rejection variants"""
    if isinstance(v, dict) and "$np_zeros" in v:
        return np.zeros(tuple(v["$np_zeros"]))
    if isinstance(v, dict) and "$rot_empty" in v:
        return R.from_quat(np.zeros((0, 4)))
    return v


def _bad(op, field, val):
    b = op.get("bad")
    if b and b["field"] == field:
        return _badval(b["value"])
    return val


def _poison_rotate(name, args, kw, bad):
    f = bad["field"]
    val = _badval(bad["value"])
    if f in ("anchor", "start", "degrees"):
        kw[f] = val
    elif f == "arg0":
        args[0] = val
    elif f == "arg1":
        if len(args) > 1:
            args[1] = val
        else:
            args[0] = val
    return args, kw


def reject_variants(op):
    """Invalid-argument variants of a path op (pure data: op + {'bad': {'field','value','kind'}})."""
    k = op["op"]
    out = []

    def add(field, value, kind):
        out.append(dict(op, bad={"field": field, "value": value, "kind": kind}))

    if k == "move":
        add("d", [1.0, 2.0], "shape2")
        add("d", [[1.0, 2.0], [3.0, 4.0]], "shape_n2")
        add("d", "abc", "str")
        add("d", [[[1.0, 2.0, 3.0]]], "ndim3")
        add("start", "x", "start_str")
        add("start", 1.5, "start_float")
        add("start", None, "start_none")
        add("d", {"$np_zeros": [0, 3]}, "empty_0x3")
    elif k == "rotate":
        add("start", "x", "start_str")
        add("start", 0.5, "start_float")
        add("anchor", [1.0, 2.0], "anchor_shape2")
        add("anchor", "abc", "anchor_str")
        add("anchor", [[[1.0, 2.0, 3.0]]], "anchor_ndim3")
        form = op["form"]
        add("anchor", {"$np_zeros": [0, 3]}, "anchor_empty_0x3")
        if form == "rotation":
            add("arg0", [0.0, 0.0, 1.0], "not_rotation")
            add("arg0", "abc", "not_rotation_str")
            add("arg0", {"$rot_empty": True}, "rotation_empty")
        elif form == "angax":
            add("arg1", [0.0, 0.0, 0.0], "zero_axis")
            add("arg1", "w", "axis_name")
            add("arg1", [1.0, 2.0], "axis_shape2")
            add("arg0", "abc", "angle_str")
            add("arg0", [[1.0, 2.0]], "angle_ndim2")
            add("degrees", "yes", "degrees_str")
            add("arg0", 1e308, "angle_overflow")
            add("arg1", [1e-170, 0.0, 0.0], "axis_underflow")
            add("arg1", [1e160, 1e160, 0.0], "axis_overflow")
        elif form == "euler":
            add("arg1", "abq", "bad_seq")
            add("arg0", "abc", "angle_str")
        elif form == "rotvec":
            add("arg0", [1.0, 2.0], "rotvec_shape2")
            add("arg0", "abc", "rotvec_str")
        elif form == "matrix":
            add("arg0", [[1.0, 0.0], [0.0, 1.0]], "matrix_2x2")
        elif form == "mrp":
            add("arg0", [1.0, 2.0], "mrp_shape2")
            add("arg0", [1e160, 0.0, 0.0], "mrp_overflow")
        elif form == "quat":
            add("arg0", [0.0, 0.0, 0.0, 0.0], "zero_quat")
            add("arg0", [1.0, 2.0, 3.0], "quat_shape3")
    elif k == "set_position":
        add("v", [1.0, 2.0], "shape2")
        add("v", "abc", "str")
        add("v", [[1.0, 2.0, 3.0, 4.0]], "shape_n4")
        add("v", {"$np_zeros": [0, 3]}, "empty_0x3")
    elif k == "set_orientation":
        add("r", [0.0, 0.0, 0.0, 1.0], "not_rotation")
        add("r", "abc", "str")
        add("r", {"$rot_empty": True}, "rotation_empty")
    return out


# ----------------------------------------------------------------------------- model side
def apply_to_model(m, op):
    """Apply a (valid) path op to a PathModel; returns ('pad', pb, pe) | ('set', N_new) | ('reset',)."""
    k = op["op"]

    def selfpos():
        P = np.array(m.P)
        return (P[0] if len(P) == 1 else P).tolist()

    if k == "move":
        pb, pe = m.move(selfpos() if is_selfpos(op["d"]) else op["d"], op.get("start", "auto"))
        return ("pad", pb, pe)
    if k == "rotate":
        q = rotation_of(op).as_quat()
        anchor = op.get("anchor")
        if is_selfpos(anchor):
            anchor = selfpos()
        elif isinstance(anchor, (np.ndarray, tuple)):
            anchor = np.array(anchor, dtype=float).tolist()
        if isinstance(anchor, (int, float)) and anchor == 0:
            anchor = [0.0, 0.0, 0.0]
        pb, pe = m.rotate(q, anchor, op.get("start", "auto"))
        return ("pad", pb, pe)
    if k == "set_position":
        if isinstance(op["v"], str) and op["v"] == "$near":
            m.set_position((np.array(m.P) + np.array(op["eps"], dtype=float)).tolist())
            return ("set", len(m))
        if isinstance(op["v"], str) and op["v"] == "$pad":
            m.set_position([p.tolist() for p in m.P] + [m.P[-1].tolist()] * op["k"])
            return ("set", len(m))
        m.set_position(selfpos() if is_selfpos(op["v"]) else op["v"])
        return ("set", len(m))
    if k == "set_orientation":
        r = op["r"]
        if isinstance(r, str) and r == "$near":
            from .models.path_model import qmul

            e = R.from_rotvec(op["eps"]).as_quat()
            m.set_orientation([qmul(e, q) for q in m.Q])
            return ("set", len(m))
        if isinstance(r, str) and r == "$pad":
            m.set_orientation([q.tolist() for q in m.Q] + [m.Q[-1].tolist()] * op["k"])
            return ("set", len(m))
        if r is None:
            # `None corresponds to a unit-rotation`: a single unit rotation; the position path is
            # end-sliced accordingly (the setter docstring's "for every path step" is not what the
            # class documentation and the property statement say; not flagged, see DESIGN.md)
            q = [[0.0, 0.0, 0.0, 1.0]]
        else:
            q = orientation_value(r).as_quat()
        m.set_orientation(q)
        return ("set", len(m))
    if k == "reset_path":
        m.reset()
        return ("reset",)
    if k == "iadd_position":
        P = np.array(m.P) + np.array(op["d"], dtype=float)
        m.set_position(P.tolist())
        return ("set", len(m))
    raise HarnessError(k)


def quats_of(obj):
    return obj._orientation.as_quat().reshape(-1, 4)


def exact_pose_copy(src, dst):
    """make dst's path bitwise equal to src's (harness-level state injection into a twin)"""
    dst._position = src._position.copy()
    dst._orientation = copy.deepcopy(src._orientation)
