"""Self-tests that gate trust in the checks (DESIGN.md §2.10).

  ./check selftest determinism [Cxx ...]   same seeds, fresh interpreters, other PYTHONHASHSEED,
                                            worker counts 1 and 16: event digests must agree
  ./check selftest mutants [Cxx ...]       source mutants in a scratch copy of the repository:
                                            the property's quick check must report a violation
  ./check selftest seeded [id ...]         the kept sub-agent changes under seeded/<id>/patch.diff
  ./check selftest benign [name|Cxx ...] [--all-props]   behaviour-preserving edits (benign/*.diff) must stay quiet
"""
from __future__ import annotations

import json
import os
import shutil
import subprocess
import sys
import tempfile
import time

PROPS = ["C08", "C09", "C10", "C11", "C18", "C20"]

FW = "magpylib/_src/fields/field_wrap_BH.py"
BT = "magpylib/_src/obj_classes/class_BaseTransform.py"
BG = "magpylib/_src/obj_classes/class_BaseGeo.py"
CO = "magpylib/_src/obj_classes/class_Collection.py"
UT = "magpylib/_src/utility.py"
IC = "magpylib/_src/input_checks.py"
ST = "magpylib/_src/style.py"
DU = "magpylib/_src/defaults/defaults_utility.py"
TU = "magpylib/_src/display/traces_utility.py"

# Each mutant: realistic edit that still compiles. kind "sub": exact text replacement (must occur
# `count` times); kind "revert": reverse-apply a repository commit (regression of a repair).
MUTANTS = {
    "C08": [
        {"name": "repr_reads_style_property_again", "kind": "sub", "file": "magpylib/_src/obj_classes/class_BaseDisplayRepr.py",
         "old": "            name = get_style_label(self)\n",
         "new": "            name = getattr(getattr(self, \"style\", None), \"label\", None)\n"},
        {"name": "dataframe_ids_read_style_property_again", "kind": "sub", "file": FW,
         "old": "            src_ids = [get_style_label(s) or f\"{s}\" for s in sources]\n",
         "new": "            src_ids = [s.style.label if s.style.label else f\"{s}\" for s in sources]\n"},
        {"name": "revert_fix_finally", "kind": "revert", "commit": "f4e268a"},
        {"name": "reset_forgets_orientation", "kind": "sub", "file": FW,
         "old": "            obj._position = pos\n            obj._orientation = ori\n",
         "new": "            obj._position = pos\n"},
        {"name": "reset_list_built_after_tiling_is_empty", "kind": "sub", "file": FW,
         "old": "    reset_obj_paths = [(obj._position, obj._orientation) for obj in reset_obj]\n",
         "new": "    reset_obj_paths = [(obj._position, obj._orientation) for obj in reset_obj[1:]]\n"},
        {"name": "finally_narrowed_to_success", "kind": "sub", "file": FW,
         "old": "    finally:\n        # reset tiled objects\n",
         "new": "    except MagpylibMissingInput:\n        raise\n    else:\n        # reset tiled objects\n"},
        {"name": "get_src_dict_inplace_position", "kind": "sub", "file": FW,
         "old": "    poss = np.array([src._position for src in group])\n",
         "new": "    poss = np.array([src._position for src in group])\n"
                "    if len(group) == 1 and poss.shape[1] > 2:\n        group[0]._position[-1] += 0.0 * 1\n"
                "        group[0]._position[-1, 0] = poss[0, -1, 0] + 1e-12\n"},
        {"name": "observer_array_not_copied", "kind": "sub", "file": IC,
         "old": "        inp = np.array(inp, dtype=float)\n        pix_shapes = [(1, 3) if inp.shape == (3,) else inp.shape]\n",
         "new": "        inp = np.asarray(inp, dtype=float)\n        pix_shapes = [(1, 3) if inp.shape == (3,) else inp.shape]\n"
                "        if inp.ndim == 3:\n            inp += 0.0\n            inp[0, 0, 0] = inp[0, 0, 0] + 1e-9\n"},
    ],
    "C09": [
        {"name": "revert_fix_euler_flat_angles", "kind": "revert", "commit": "99e177d"},
        {"name": "constructor_pads_orientation_at_front", "kind": "sub", "file": BG,
         "old": "            oriQ = np.pad(oriQ, ((0, len_pos - len_ori), (0, 0)), \"edge\")\n",
         "new": "            oriQ = np.pad(oriQ, ((len_pos - len_ori, 0), (0, 0)), \"edge\")\n"},
        {"name": "revert_fix_rotate_order", "kind": "revert", "commit": "93dce91"},
        {"name": "revert_fix_numpy_start", "kind": "revert", "commit": "068cf95"},
        # d0f5811 (empty position / orientation inputs are rejected), as a substitution since 6122ce1 touched its lines
        {"name": "empty_position_accepted", "kind": "sub", "file": BG,
         "old": "    if len(pos) == 0:\n        raise MagpylibBadUserInput(",
         "new": "    if len(pos) < 0:\n        raise MagpylibBadUserInput("},
        {"name": "pad_behind_off_by_one", "kind": "sub", "file": BT,
         "old": "        pad_behind = start + lenip - (lenop + pad_before)\n",
         "new": "        pad_behind = start + lenip - (lenop + pad_before) + (1 if pad_before else 0)\n"},
        {"name": "scalar_applied_to_single_entry_when_negative_start", "kind": "sub", "file": BT,
         "old": "    end = len(ppath) if scalar_input else start + lenip\n",
         "new": "    end = len(ppath) if (scalar_input and start < len(ppath) - 3 or scalar_input and start == 0) "
                "else start + lenip\n"},
        {"name": "rotation_composed_on_the_right", "kind": "sub", "file": BT,
         "old": "    opath[newstart:end] = (rotation * oldrot).as_quat()\n",
         "new": "    opath[newstart:end] = (oldrot * rotation).as_quat()\n"},
        {"name": "pad_slice_keeps_beginning", "kind": "sub", "file": BG,
         "old": "        return path2[-delta_path:]\n", "new": "        return path2[:delta_path]\n"},
        {"name": "start_check_after_mutation_in_move", "kind": "sub", "file": BT,
         "old": "    check_start_type(start)\n\n    # pad target_object path and compute start and end-index for rotation application\n"
                "    ppath, opath, start, end, padded = path_padding(inpath, start, target_object)\n",
         "new": "    if isinstance(start, float):\n        target_object._position = target_object._position + 0.0\n"
                "        target_object._position[0] += inpath if inpath.ndim == 1 else inpath[0]\n"
                "    check_start_type(start)\n\n    # pad target_object path and compute start and end-index for rotation application\n"
                "    ppath, opath, start, end, padded = path_padding(inpath, start, target_object)\n"},
        {"name": "angax_degrees_ignored_for_vector_angles", "kind": "sub", "file": BT,
         "old": "        if degrees:\n            angle = angle / 180 * np.pi\n\n        # create rotation vector from angle/axis input\n",
         "new": "        if degrees or not isinstance(angle, numbers.Number):\n            angle = angle / 180 * np.pi\n\n"
                "        # create rotation vector from angle/axis input\n"},
        {"name": "multi_anchor_pads_wrong_operand", "kind": "sub", "file": BT,
         "old": "        anchor = np.pad(anchor, ((0, len_inrotQ - len_anchor), (0, 0)), \"edge\")\n",
         "new": "        anchor = np.pad(anchor, ((len_inrotQ - len_anchor, 0), (0, 0)), \"edge\")\n"},
        {"name": "orientation_setter_pads_position_at_front", "kind": "sub", "file": BG,
         "old": "        self._position = pad_slice_path(oriQ, self._position)\n",
         "new": "        self._position = pad_slice_path(oriQ, self._position[::-1])[::-1] if len(oriQ) > len(self._position) + 1 "
                "else pad_slice_path(oriQ, self._position)\n"},
    ],
    "C10": [
        {"name": "revert_fix_format_once", "kind": "revert", "commit": "f035d3f"},
        {"name": "children_rotate_about_own_centre", "kind": "sub", "file": BT,
         "old": "            child._rotate(rotation, anchor=anchor, start=start, parent_path=ppth)\n",
         "new": "            child._rotate(rotation, anchor=anchor, start=start, parent_path=None if parent_path is not None else ppth)\n"},
        {"name": "grandchildren_use_inner_collection_path", "kind": "sub", "file": BT,
         "old": "            ppth = self._position if parent_path is None else parent_path\n",
         "new": "            ppth = self._position\n"},
        {"name": "orientation_setter_children_start_auto", "kind": "sub", "file": BG,
         "old": "                self.orientation * old_ori_pad.inv(), anchor=self._position, start=0\n",
         "new": "                self.orientation * old_ori_pad.inv(), anchor=self._position, start=\"auto\"\n"},
        {"name": "position_setter_skips_nested_collections", "kind": "sub", "file": BG,
         "old": "            child.position = self._position + rel_child_pos\n",
         "new": "            if not (getattr(child, \"children\", None) and getattr(self, \"parent\", None) is not None):\n"
                "                child.position = self._position + rel_child_pos\n"},
        {"name": "children_moved_with_collection_start_semantics_lost", "kind": "sub", "file": BT,
         "old": "            child.move(displacement, start=start)\n",
         "new": "            child.move(displacement, start=start if start == \"auto\" or start >= 0 else \"auto\")\n"},
        {"name": "invalid_start_detected_after_children_moved", "kind": "sub", "file": BT,
         "old": "    check_start_type(start)\n\n    # pad target_object path and compute start and end-index for rotation application\n"
                "    ppath, opath, start, end, padded = path_padding(inpath, start, target_object)\n",
         "new": "    if getattr(target_object, \"_children\", None) is None and target_object._parent is not None and start is None:\n"
                "        start = \"auto\"\n"
                "    check_start_type(start)\n\n    # pad target_object path and compute start and end-index for rotation application\n"
                "    ppath, opath, start, end, padded = path_padding(inpath, start, target_object)\n"},
    ],
    "C11": [
        {"name": "copy_rollback_only_direct_children", "kind": "sub", "file": BG,
         "old": "            stack.extend(children or [])\n",
         "new": "            stack.extend([])\n"},
        {"name": "iteration_in_typed_order", "kind": "sub", "file": CO,
         "old": "        yield from self._children\n",
         "new": "        yield from self._sources + self._sensors + self._collections\n"},
        {"name": "revert_fix_getter_copies", "kind": "revert", "commit": "2ae289d"},
        # cdaacac (add validates everything before assigning any parent), as a substitution since 69f01cb touched it:
        # the duplicate is only detected after the parents were assigned
        {"name": "add_detects_duplicates_after_assigning_parents", "kind": "sub", "file": CO,
         "old": "            if id(obj) in seen:\n                raise MagpylibBadUserInput(\n"
                "                    f\"Cannot add {obj!r} to {self!r} more than once.\"\n                )\n"
                "            seen.add(id(obj))\n\n        # assign parent\n        for obj in obj_list:\n"
                "            if obj._parent is not None:\n                obj._parent.remove(obj)\n"
                "            obj._parent = self\n",
         "new": "\n        # assign parent\n        for obj in obj_list:\n"
                "            if obj._parent is not None:\n                obj._parent.remove(obj)\n"
                "            obj._parent = self\n            if id(obj) in seen:\n"
                "                raise MagpylibBadUserInput(f\"Cannot add {obj!r} more than once.\")\n"
                "            seen.add(id(obj))\n"},
        # 2b80a0e (remove clears the parent link only of children it really removed), as a substitution since the
        # follow-up repair rewrote the same lines
        {"name": "remove_clears_parent_unconditionally", "kind": "sub", "file": CO,
         "old": "                if rec_obj_remover(self, child):\n                    child._parent = None\n",
         "new": "                rec_obj_remover(self, child)\n                child._parent = None\n"},
        {"name": "revert_fix_copy_finally", "kind": "revert", "commit": "395226b"},
        {"name": "remove_keeps_parent_pointer", "kind": "sub", "file": CO,
         "old": "                if rec_obj_remover(self, child):\n                    child._parent = None\n",
         "new": "                if rec_obj_remover(self, child):\n                    pass\n"},
        {"name": "typed_setter_without_view_update", "kind": "sub", "file": CO,
         "old": "        self._children += obj_list\n        self._update_src_and_sens()\n",
         "new": "        self._children += obj_list\n        if len(obj_list) != 2:\n            self._update_src_and_sens()\n"},
        {"name": "parent_none_branch_without_remove", "kind": "sub", "file": BG,
         "old": "            if self._parent is not None:\n                self._parent.remove(self)\n            self._parent = None\n",
         "new": "            if self._parent is not None and self._parent._parent is None:\n                self._parent.remove(self)\n            self._parent = None\n"},
        {"name": "cycle_check_only_direct", "kind": "sub", "file": CO,
         "old": "                if obj is self or self in obj.collections_all:\n",
         "new": "                if obj is self or self in obj.collections:\n"},
        {"name": "override_parent_forgets_detach_for_collections", "kind": "sub", "file": CO,
         "old": "            if obj._parent is not None:\n                obj._parent.remove(obj)\n            obj._parent = self\n",
         "new": "            if obj._parent is not None and not isinstance(obj, Collection):\n                obj._parent.remove(obj)\n            obj._parent = self\n"},
    ],
    "C18": [
        # 0c17cf5 (tree inputs of copy() after everything that can be rejected), as a substitution since a68f46d:
        # tree inputs applied first again
        {"name": "copy_applies_tree_inputs_first", "kind": "sub", "file": BG,
         "old": "        style_kwargs = {}\n        tree_kwargs = (\"children\", \"sources\", \"sensors\", \"collections\")\n",
         "new": "        tree_kwargs = (\"children\", \"sources\", \"sensors\", \"collections\")\n"
                "        for k, v in kwargs.items():\n            if k in tree_kwargs:\n                setattr(obj_copy, k, v)\n"
                "        style_kwargs = {}\n"},
        # a68f46d + its follow-up (roll-back of a rejected copy()), as substitutions
        {"name": "copy_rollback_disabled", "kind": "sub", "file": BG,
         "old": "            except Exception:\n                _set_tree_links(links)\n                raise\n",
         "new": "            except Exception:\n                raise\n"},
        {"name": "revert_fix_empty_label", "kind": "revert", "commit": "0197573"},
        # 3c55826 (parent assigned last) cannot be reverse-applied any more since 0c17cf5 rewrote the same lines
        {"name": "copy_assigns_parent_first", "kind": "sub", "file": BG,
         "old": "        style_kwargs = {}\n        tree_kwargs = (",
         "new": "        if \"parent\" in kwargs:\n            obj_copy.parent = kwargs[\"parent\"]\n"
                "        style_kwargs = {}\n        tree_kwargs = ("},
        {"name": "revert_fix_copy_finally", "kind": "revert", "commit": "395226b"},
        {"name": "shallow_copy_for_leaves", "kind": "sub", "file": BG,
         "old": "        else:\n            obj_copy = deepcopy(self)\n",
         "new": "        else:\n            from copy import copy as shallow\n\n"
                "            obj_copy = deepcopy(self) if hasattr(self, \"_children\") else shallow(self)\n"},
        {"name": "kwargs_applied_to_original", "kind": "sub", "file": BG,
         "old": "            elif k != \"parent\" and k not in tree_kwargs:\n                setattr(obj_copy, k, v)\n",
         "new": "            elif k != \"parent\" and k not in tree_kwargs:\n"
                "                setattr(obj_copy if k != \"handedness\" else self, k, v)\n"
                "                setattr(obj_copy, k, v)\n"},
        {"name": "initialised_style_shared", "kind": "sub", "file": BG,
         "old": "            obj_copy.style.label = label\n",
         "new": "            obj_copy.style.label = label\n            obj_copy.style._path = self.style._path\n"},
        {"name": "position_array_shared", "kind": "sub", "file": BG,
         "old": "        style_kwargs = {}\n        tree_kwargs = (",
         "new": "        obj_copy._position = self._position\n        style_kwargs = {}\n        tree_kwargs = ("},
        {"name": "parent_kept_on_copy_of_nested_collection", "kind": "sub", "file": BG,
         "old": "            try:\n                obj_copy = deepcopy(self)\n            finally:\n                self._parent = parent\n",
         "new": "            try:\n                obj_copy = deepcopy(self)\n            finally:\n                self._parent = parent\n"
                "            if getattr(parent, \"_parent\", None) is not None:\n                obj_copy._parent = parent\n"},
        {"name": "trace_kwargs_shared", "kind": "sub", "file": BG,
         "old": "            obj_copy.style.label = label\n",
         "new": "            obj_copy.style.label = label\n"
                "            for t_new, t_old in zip(obj_copy.style.model3d.data, self.style.model3d.data):\n"
                "                t_new._kwargs = t_old._kwargs\n"},
    ],
    "C20": [
        {"name": "revert_fix_color_cache", "kind": "revert", "commit": "8f4182c"},
        # 1507b76 (caller's style dictionaries) cannot be reverse-applied any more (082e3ec rewrote the same lines
        # of magic_to_dict): its parts as substitutions
        {"name": "ctor_keeps_callers_style_dict", "kind": "sub", "file": BG,
         "old": "        if style is not None:\n            style = deepcopy(style)\n        if kwargs:\n",
         "new": "        if kwargs:\n"},
        {"name": "magic_to_dict_merges_in_place", "kind": "sub", "file": DU,
         "old": "    merged = dict(first)\n",
         "new": "    merged = first\n"},
        # 0497686 (a dictionary assigned to a sub-style updates it), as a substitution since 0563851 touched it
        {"name": "dict_assignment_resets_substyle", "kind": "sub", "file": DU,
         "old": "            val = current.copy().update(val)\n",
         "new": "            val = class_(**val)\n"},
        # (`val = current.update(val)` in place is, on its own, equivalent for the property: without a shared
        #  sub-style object nobody else can see the in-place update; the revert of the whole repair is the mutant)
        {"name": "revert_fix_substyle_copies", "kind": "revert", "commit": "0563851"},
        {"name": "assigned_substyle_object_kept_by_reference", "kind": "sub", "file": DU,
         "old": "        val = val.copy()\n",
         "new": "        pass\n"},
        {"name": "revert_fix_style_reset", "kind": "revert", "commit": "f3dd4e6"},
        {"name": "revert_fix_label_key", "kind": "revert", "commit": "282ec0a"},
        # (the revert of d85c7fa - to_TriangleCollection() handing over the mesh's Trace3d objects - stopped being
        #  a regression with b241992: Trace3d objects are now copied on entry, whoever hands them over; the seeded
        #  change C20_g and `revert_fix_trace_objects_copied` guard the same clause)
        {"name": "revert_fix_alias", "kind": "revert", "commit": "0b26a89"},
        {"name": "magic_copy_is_shallow", "kind": "sub", "file": "magpylib/_src/defaults/defaults_utility.py",
         "old": "        \"\"\"returns a copy of the current class instance\"\"\"\n        return deepcopy(self)\n",
         "new": "        \"\"\"returns a copy of the current class instance\"\"\"\n        import copy as _copy\n\n        return _copy.copy(self)\n"},
        {"name": "reset_merges_into_current_values", "kind": "sub", "file": "magpylib/_src/defaults/defaults_classes.py",
         "old": "        for key, val in get_defaults_dict().items():\n            setattr(self, key, None)\n            setattr(self, key, val)\n",
         "new": "        self.update(get_defaults_dict(), _match_properties=False)\n"},
        {"name": "revert_fix_keyword_values_copied", "kind": "revert", "commit": "ee6915f"},
        {"name": "revert_fix_method_names", "kind": "revert", "commit": "ba97f86"},
        {"name": "revert_fix_description_string", "kind": "revert", "commit": "19f04ab"},
        {"name": "revert_fix_dipole_ctor", "kind": "revert", "commit": "15cf0ed"},
        {"name": "show_kwarg_below_object_style", "kind": "sub", "file": ST,
         "old": "    style.update(**style_kwargs_specific, _match_properties=True)\n",
         "new": "    style.update(**style_kwargs_specific, _match_properties=True, _replace_None_only=True)\n"},
        {"name": "family_defaults_without_none_filter", "kind": "sub", "file": ST,
         "old": "                {k: v for k, v in family_dict.items() if v is not None}\n",
         "new": "                dict(family_dict.items())\n"},
        {"name": "resolution_works_on_the_objects_own_style", "kind": "sub", "file": ST,
         "old": "    style = obj.style.copy()\n",
         "new": "    style = obj.style if style_kwargs and len(obj_families) > 1 else obj.style.copy()\n"},
        {"name": "style_kwargs_not_cleared_after_consumption", "kind": "sub", "file": BG,
         "old": "            style_kwargs = self._style_kwargs.copy()\n            self._style_kwargs = {}\n",
         "new": "            style_kwargs = self._style_kwargs.copy()\n"},
        {"name": "families_resolved_general_last", "kind": "sub", "file": ST,
         "old": "    for obj_family in obj_families:\n        family_style = getattr(default_style, obj_family, {})\n",
         "new": "    for obj_family in reversed(obj_families):\n        family_style = getattr(default_style, obj_family, {})\n"},
        {"name": "magic_to_dict_later_dict_replaces_earlier_entries", "kind": "sub", "file": DU,
         "old": "            new_kwargs[keys[0]] = _merge_dicts(new_kwargs[keys[0]], val)\n",
         "new": "            new_kwargs[keys[0]] = dict(val) if len(keys) == 1 else _merge_dicts(new_kwargs[keys[0]], val)\n"},
        {"name": "revert_fix_deep_merge", "kind": "revert", "commit": "082e3ec"},
        {"name": "revert_fix_style_input_copied", "kind": "revert", "commit": "219997f"},
        {"name": "revert_fix_style_object_assignment", "kind": "revert", "commit": "1bec7ef"},
        {"name": "revert_fix_trace_objects_copied", "kind": "revert", "commit": "b241992"},
        {"name": "copy_shares_style_with_original", "kind": "sub", "file": BG,
         "old": "            obj_copy.style.label = label\n",
         "new": "            obj_copy.style.label = label\n            obj_copy.style._path = self.style._path\n"},
        {"name": "invalid_opacity_clamped_not_rejected", "kind": "sub", "file": ST, "count": 1,
         "old": "    @opacity.setter\n    def opacity(self, val):\n",
         "new": "    @opacity.setter\n    def opacity(self, val):\n        if isinstance(val, (int, float)) and val > 1:\n            val = 1\n"},
    ],
}


def _run(cmd, env=None, timeout=1800):
    p = subprocess.run(cmd, capture_output=True, text=True, env=env, timeout=timeout)
    return p.returncode, p.stdout, p.stderr


def make_scratch():
    base = tempfile.mkdtemp(prefix="verif-scratch-", dir="/var/tmp")
    dst = os.path.join(base, "repo")
    rc, out, err = _run(["rsync", "-a", "--exclude", ".git", "--exclude", "__pycache__", "/repo/", dst + "/"])
    if rc != 0:
        raise RuntimeError("rsync failed: " + err)
    return base, dst


def apply_mutant(dst, m):
    if m["kind"] == "sub":
        path = os.path.join(dst, m["file"])
        s = open(path).read()
        cnt = s.count(m["old"])
        if cnt != m.get("count", 1):
            return f"pattern occurs {cnt} times in {m['file']}"
        open(path, "w").write(s.replace(m["old"], m["new"]))
        return None
    if m["kind"] == "revert":
        rc, diff, err = _run(["git", "-C", "/repo", "show", "--format=", m["commit"]])
        if rc != 0:
            return "git show failed: " + err
        p = subprocess.run(["patch", "-R", "-p1", "-s", "-d", dst], input=diff, capture_output=True, text=True)
        if p.returncode != 0:
            return "reverse patch failed: " + p.stdout + p.stderr
        return None
    if m["kind"] == "patch":
        p = subprocess.run(["patch", "-p1", "-s", "-d", dst], input=open(m["path"]).read(), capture_output=True,
                           text=True)
        if p.returncode != 0:
            return "patch failed: " + p.stdout + p.stderr
        return None
    return "unknown mutant kind"


def cmd_mutants(args, home):
    props = [a for a in args if a in PROPS] or PROPS
    only = [a for a in args if a not in PROPS and not a.startswith("--")]
    runs = None
    for a in args:
        if a.startswith("--runs="):
            runs = a.split("=")[1]
    results = []
    t0 = time.time()
    ok_all = True
    for prop in props:
        for m in MUTANTS.get(prop, []):
            if only and m["name"] not in only:
                continue
            base, dst = make_scratch()
            try:
                err = apply_mutant(dst, m)
                if err:
                    results.append({"property": prop, "mutant": m["name"], "status": "not-applicable", "why": err})
                    print(f"[{prop}] {m['name']}: NOT APPLIED ({err})", flush=True)
                    ok_all = False
                    continue
                env = dict(os.environ, VERIF_REPO=dst, VERIF_HOME=home)
                cmd = [os.path.join(home, "check"), prop, "--tier", "quick", "--no-cross", "--no-evidence"]
                if runs:
                    cmd += ["--runs", runs]
                t1 = time.time()
                rc, out, errtxt = _run(cmd, env=env)
                viol = [ln for ln in out.splitlines() if ln.startswith("violation:")]
                status = "caught" if rc == 1 and "VIOLATION property=" + prop in out else (
                    "harness-error" if rc == 2 else "missed")
                if status != "caught":
                    ok_all = False
                results.append({"property": prop, "mutant": m["name"], "status": status, "exit": rc,
                                "wall_s": round(time.time() - t1, 1), "first_violation": viol[:1]})
                print(f"[{prop}] {m['name']}: {status.upper()} (exit {rc}, {time.time() - t1:.0f}s) "
                      f"{viol[0][:200] if viol else ''}", flush=True)
                if status == "harness-error":
                    print(out[-1500:], errtxt[-500:])
            finally:
                shutil.rmtree(base, ignore_errors=True)
    doc = {"what": "mutant sensitivity self-test", "wall_s": round(time.time() - t0, 1), "results": results}
    os.makedirs(os.path.join(home, "evidence"), exist_ok=True)
    sel = os.path.join(home, "evidence", "selftest_mutants.json")
    prev = {}
    if os.path.exists(sel):
        try:
            prev = {(r["property"], r["mutant"]): r for r in json.load(open(sel)).get("results", [])}
        except Exception:
            prev = {}
    for r in results:
        prev[(r["property"], r["mutant"])] = r
    current = {(p, m["name"]) for p, ms in MUTANTS.items() for m in ms}  # results of retired mutants are dropped
    doc["results"] = sorted((r for k, r in prev.items() if k in current), key=lambda r: (r["property"], r["mutant"]))
    json.dump(doc, open(sel, "w"), indent=1)
    # clean replay files produced against scratch copies
    print(f"mutants: {sum(r['status'] == 'caught' for r in results)}/{len(results)} caught")
    return 0 if ok_all else 1


def cmd_determinism(args, home):
    props = [a for a in args if a in PROPS] or PROPS
    n = 48
    bad = 0
    from .cli import cross_interpreter_digests

    for prop in props:
        ref = None
        for hs, workers in (("0", 1), ("12345", 1), ("777", 16), ("0", 16)):
            d, err = cross_interpreter_digests(prop, "quick", int(os.environ.get("VERIF_SEED", "0") or 0), n,
                                               workers=workers, hashseed=hs)
            if d is None:
                print(f"[{prop}] HARNESS-ERROR {err}")
                bad += 1
                break
            if ref is None:
                ref = d
            elif d != ref:
                diff = [i for i in ref if d.get(i) != ref[i]]
                print(f"[{prop}] NON-DETERMINISTIC: runs {diff[:10]} differ (PYTHONHASHSEED={hs}, workers={workers})")
                bad += 1
                break
        else:
            print(f"[{prop}] deterministic: {n} runs x 4 configurations (hash seeds 0/12345/777, workers 1/16) agree")
    return 2 if bad else 0


def _merge_results(path, results, key, head, keep):
    """results of a partial run replace the entries with the same key; entries of retired items are dropped"""
    prev = {}
    if os.path.exists(path):
        try:
            prev = {tuple(r.get(k) for k in key): r for r in json.load(open(path)).get("results", [])}
        except Exception:
            prev = {}
    for r in results:
        prev[tuple(r.get(k) for k in key)] = r
    doc = dict(head)
    doc["results"] = [r for _, r in sorted(prev.items(), key=lambda kv: tuple(str(x) for x in kv[0])) if keep(r)]
    json.dump(doc, open(path, "w"), indent=1)


def cmd_seeded(args, home):
    root = os.path.join(home, "seeded")
    ids = [a for a in args if not a.startswith("--")] or sorted(
        d for d in os.listdir(root) if os.path.isdir(os.path.join(root, d))) if os.path.isdir(root) else []
    rc_all = 0
    results = []
    for sid in ids:
        meta = json.load(open(os.path.join(root, sid, "meta.json")))
        prop = meta.get("check", meta["property"])  # a change can break a sibling property's clause
        base, dst = make_scratch()
        try:
            # patch.diff is relative to the commit the sub-agent worked on (meta.json); when later repairs
            # touched the same lines, patch_rebased.diff carries the same change ported to the current tree
            reb = os.path.join(root, sid, "patch_rebased.diff")
            err = apply_mutant(dst, {"kind": "patch", "path": reb if os.path.exists(reb) else
                                     os.path.join(root, sid, "patch.diff")})
            if err:
                print(f"[{sid}] NOT APPLIED: {err}")
                rc_all = 1
                continue
            env = dict(os.environ, VERIF_REPO=dst, VERIF_HOME=home)
            t1 = time.time()
            rc, out, errtxt = _run([os.path.join(home, "check"), prop, "--tier", "quick", "--no-cross",
                                    "--no-evidence"], env=env)
            viol = [ln for ln in out.splitlines() if ln.startswith("violation:")]
            status = "caught" if rc == 1 else ("harness-error" if rc == 2 else "missed")
            print(f"[{sid}] {prop}: {status.upper()} (exit {rc}, {time.time() - t1:.0f}s) {viol[0][:220] if viol else ''}",
                  flush=True)
            results.append({"seeded": sid, "property": prop, "status": status, "first_violation": viol[:1]})
            if status != "caught" and meta.get("expected", "caught") == "caught":
                rc_all = 1
            if meta.get("expected") == "quiet" and status != "missed":
                rc_all = 1  # a retired (now harmless) change must not raise an alarm either
        finally:
            shutil.rmtree(base, ignore_errors=True)
    _merge_results(os.path.join(home, "evidence", "selftest_seeded.json"), results, ("seeded",),
                   {"what": "seeded changes from independent sub-agents: the quick check must report them"},
                   keep=lambda r: os.path.isdir(os.path.join(root, r.get("seeded", ""))))
    return rc_all


def cmd_benign(args, home):
    """Behaviour-preserving edits of the anchored code (benign/<Cxx>_<name>.diff): the check of the property
    must stay quiet (exit 0) on every one of them.  `--all-props` runs all six checks on each edit."""
    root = os.path.join(home, "benign")
    names = sorted(f[:-5] for f in os.listdir(root) if f.endswith(".diff")) if os.path.isdir(root) else []
    only = [a for a in args if not a.startswith("--")]
    allp = "--all-props" in args
    rc_all = 0
    results = []
    for name in names:
        if only and name not in only and name[:3] not in only:
            continue
        base, dst = make_scratch()
        try:
            err = apply_mutant(dst, {"kind": "patch", "path": os.path.join(root, name + ".diff")})
            if err:
                print(f"[{name}] NOT APPLIED: {err}")
                results.append({"edit": name, "status": "not-applied"})
                rc_all = 1
                continue
            for prop in (PROPS if allp else [name[:3]]):
                env = dict(os.environ, VERIF_REPO=dst, VERIF_HOME=home)
                t1 = time.time()
                rc, out, errtxt = _run([os.path.join(home, "check"), prop, "--tier", "quick", "--no-cross",
                                        "--no-evidence"], env=env)
                viol = [ln for ln in out.splitlines() if ln.startswith(("violation:", "HARNESS-ERROR"))]
                status = "quiet" if rc == 0 and "VIOLATION" not in out else (
                    "harness-error" if rc == 2 else "false-alarm")
                print(f"[{name}] {prop}: {status.upper()} (exit {rc}, {time.time() - t1:.0f}s) "
                      f"{viol[0][:220] if viol else ''}", flush=True)
                results.append({"edit": name, "property": prop, "status": status, "first_line": viol[:1]})
                if status != "quiet":
                    rc_all = 1
        finally:
            shutil.rmtree(base, ignore_errors=True)
    _merge_results(os.path.join(home, "evidence", "selftest_benign.json"), results, ("edit", "property"),
                   {"what": "behaviour-preserving edits: the checks must stay quiet"},
                   keep=lambda r: os.path.exists(os.path.join(root, r.get("edit", "") + ".diff")))
    return rc_all


def main(argv, home):
    if not argv:
        print(__doc__)
        return 2
    if argv[0] == "mutants":
        return cmd_mutants(argv[1:], home)
    if argv[0] == "determinism":
        return cmd_determinism(argv[1:], home)
    if argv[0] == "benign":
        return cmd_benign(argv[1:], home)
    if argv[0] == "seeded":
        return cmd_seeded(argv[1:], home)
    print(__doc__)
    return 2
