"""./check command line (DESIGN.md §5)."""
from __future__ import annotations

import argparse
import json
import os
import subprocess
import sys
import time

from . import env, evidence, findings
from .core import canon

PROPS = ["C08", "C09", "C10", "C11", "C18", "C20"]


def home():
    return os.environ.get("VERIF_HOME") or os.path.dirname(os.path.dirname(os.path.abspath(__file__)))


def cmd_setup(_args):
    root = env.bootstrap()
    import hypothesis  # noqa: F401  (not used by the engine; listed so a missing venv is noticed)
    import jsonschema  # noqa: F401
    import magpylib
    import numpy
    import scipy

    from . import faults

    hooks = faults.install()
    print(f"setup ok: magpylib {magpylib.__version__} from {root}; numpy {numpy.__version__}; "
          f"scipy {scipy.__version__}; hooks {'present' if hooks else 'ABSENT'}")
    for p in ("/root/.vp/EVIDENCE.schema.json",):
        if not os.path.exists(p):
            print(f"note: {p} not found, using committed copy under schemas/")
    return 0


def cmd_replay(args):
    from .runner import replay_file

    doc, res = replay_file(home(), args.prop, args.replay)
    exp_sig = doc.get("expected_signature")
    got = res.signature
    reproduced = got is not None and (exp_sig is None or got == exp_sig)
    digest_match = res.event_digest == doc.get("expected_event_digest")
    if args.machine:
        print("REPLAY-RESULT " + json.dumps({"reproduced": reproduced, "digest_match": digest_match,
                                             "signature": got, "event_digest": res.event_digest}))
    if got is None:
        print(f"replay {args.replay}: no violation (property held on this history); "
              f"events={res.n_events} digest={res.event_digest}")
        return 0
    print(f"replay {args.replay}: violation at step {res.violation_step}: {res.violation}")
    print("signature: " + canon(got))
    if exp_sig is not None and got != exp_sig:
        print("note: signature differs from the recorded one: " + canon(exp_sig))
    if not digest_match and exp_sig is not None:
        print("note: event digest differs from the recorded one")
    known = findings.match(findings.load(home()), got)
    if known and not args.machine:
        print(f"KNOWN-FINDING: property={args.prop} {known.get('description', '')}")
        return 0
    print(f"VIOLATION property={args.prop} replay={os.path.abspath(args.replay)}")
    return 1


def cmd_digests(args):
    from .runner import Batch

    env.bootstrap()
    b = Batch(args.prop, args.tier or "quick", args.seed, home(), workers=args.workers or 1,
              n_runs=args.runs or 32, quiet=True)
    agg = b.run(det_every=0)
    if b.errors:
        print("HARNESS-ERROR " + b.errors[0])
        return 2
    print("DIGESTS " + json.dumps({str(k): v for k, v in sorted(agg["digests"].items())}))
    return 0


def cross_interpreter_digests(prop, tier, seed, n, workers=1, hashseed="12345"):
    envp = dict(os.environ)
    envp["PYTHONHASHSEED"] = hashseed
    p = subprocess.run([os.path.join(home(), "check"), prop, "--digests", "--runs", str(n), "--tier", tier,
                        "--seed", str(seed), "--workers", str(workers)],
                       capture_output=True, text=True, timeout=1200, env=envp)
    for ln in p.stdout.splitlines():
        if ln.startswith("DIGESTS "):
            return {int(k): v for k, v in json.loads(ln[8:]).items()}, None
    return None, f"exit {p.returncode}: {p.stdout[-800:]} {p.stderr[-800:]}"


def cmd_check(args):
    from .runner import Batch, get_sim

    t0 = time.monotonic()
    root = env.bootstrap()
    tier = args.tier or os.environ.get("VERIF_TIER") or "quick"
    sim = get_sim(args.prop)
    seed = args.seed
    print(f"VERIF_SEED={seed} property={args.prop} tier={tier} repo={root} "
          f"PYTHONHASHSEED={os.environ.get('PYTHONHASHSEED')}", flush=True)
    n_runs = budget = None
    if tier == "quick":
        n_runs = args.runs or sim.runs["quick"]
    else:
        budget = args.budget or float(os.environ.get("VERIF_BUDGET_S", "0")) or sim.budget["thorough"]
        if args.runs:
            n_runs, budget = args.runs, None
    b = Batch(args.prop, tier, seed, home(), workers=args.workers, n_runs=n_runs, budget_s=budget)
    agg = b.run()
    wall_batch = time.monotonic() - t0
    # determinism across interpreters (another PYTHONHASHSEED, one worker) on the first seeds
    det_cross = 0
    if not b.errors and not args.no_cross:
        n = min(getattr(sim, "cross_n", 24), agg["runs"])
        other, err = cross_interpreter_digests(args.prop, tier, seed, n)
        if other is None:
            b.errors.append("determinism cross-check could not run: " + err)
        else:
            for i, d in other.items():
                if i in agg["digests"]:
                    det_cross += 1
                    if agg["digests"][i] != d:
                        b.errors.append(f"non-deterministic across interpreters: run {i} digest "
                                        f"{agg['digests'][i]} vs {d}")
                        break
    reports = []
    if not b.errors:
        reports = b.minimise_and_classify()
    unknown = [r for r in reports if r["known"] is None]
    knowns = [r for r in reports if r["known"] is not None]
    wall = time.monotonic() - t0
    stats = agg["stats"]
    faults_fired = {k[6:]: v for k, v in sorted(stats.items()) if k.startswith("fault.")}
    probes = {k[6:]: v for k, v in sorted(stats.items()) if k.startswith("probe.")}
    attempts = {k[8:]: v for k, v in sorted(stats.items()) if k.startswith("attempt.")}
    for k in attempts:  # a fault kind that was armed but never fired is reported as 0, not omitted
        faults_fired.setdefault(k, 0)
    other_stats = {k: v for k, v in sorted(stats.items()) if not k.startswith(("fault.", "probe.", "attempt."))}
    rate = agg["runs"] / max(wall_batch, 1e-9) * 3600
    doc = {
        "property_id": args.prop, "tier": tier, "seed": seed, "level": sim.level,
        "wall_s": round(wall, 3),
        "violations": len(unknown),
        "coverage": {
            "evaluations": agg["runs"],
            "distinct_nontrivial": len(agg["sigs"]),
            "rule": sim.rule,
            "samples": agg["samples"][:3] or [{"note": "no violation-free run with >=2 ops in this batch"}],
            "ops_executed": agg["ops"],
            "fault_variants_executed": int(stats.get("variants", 0)),
            "faults_fired": faults_fired,
            "faults_armed": attempts,
            "reach_probes": probes,
            "counters": other_stats,
            "runs_per_hour": int(rate), "seeds_per_hour": int(rate),
            "sim_time": f"n/a - the system has no clock; {agg['ops']} operations executed "
                        f"(+{int(stats.get('variants', 0))} fault variants)",
            "determinism_pairs_checked": agg["det_pairs"] + det_cross,
            "violating_runs": agg["violating_runs"],
            "known_findings_reported": [r["known"].get("id") for r in knowns],
            "real_components": sim.real_components,
            "stub_components": sim.stub_components,
            "workers": b.workers,
            "exhaustive": False,
        },
        "assumptions": sim.assumptions,
    }
    if b.errors:
        for e in b.errors[:5]:
            print("HARNESS-ERROR " + e.strip().replace("\n", "\n    "), flush=True)
        return 2
    path = "(not written)" if args.no_evidence else evidence.write(home(), args.prop, doc)
    print(f"runs={agg['runs']} ops={agg['ops']} variants={int(stats.get('variants', 0))} "
          f"distinct={len(agg['sigs'])} det_pairs={agg['det_pairs'] + det_cross} wall={wall:.1f}s "
          f"({int(rate)} runs/h) evidence={path}")
    print("faults fired: " + canon(faults_fired))
    print("reach probes: " + canon(probes))
    seen_known = {}
    for r in knowns:  # one line per listed finding (the first replay), however many signatures matched it
        seen_known.setdefault(r["known"].get("id"), []).append(r)
    for kid, rs in seen_known.items():
        more = f" (+{len(rs) - 1} more replays with other op/notation signatures)" if len(rs) > 1 else ""
        print(f"KNOWN-FINDING: property={args.prop} {rs[0]['known'].get('description', '')} "
              f"[{kid}] replay={rs[0]['path']}{more}")
    for r in unknown:
        d = r["doc"]
        print(f"violation: {canon(d['expected_signature'])} :: {d['detail']} "
              f"(seed {d['seed']}, {len(d['ops'])} ops after minimisation)")
        print(f"VIOLATION property={args.prop} replay={r['path']}")
    if unknown:
        return 1
    print(f"OK property={args.prop} held on everything explored")
    return 0


def main(argv):
    if argv and argv[0] == "setup":
        return cmd_setup(argv[1:])
    if argv and argv[0] == "selftest":
        from . import selftest

        return selftest.main(argv[1:], home())
    ap = argparse.ArgumentParser(prog="check")
    ap.add_argument("prop", choices=PROPS)
    ap.add_argument("--tier", choices=["quick", "thorough"])
    ap.add_argument("--replay")
    ap.add_argument("--machine", action="store_true")
    ap.add_argument("--digests", action="store_true")
    ap.add_argument("--runs", type=int)
    ap.add_argument("--budget", type=float)
    ap.add_argument("--workers", type=int)
    ap.add_argument("--no-cross", action="store_true")
    ap.add_argument("--no-evidence", action="store_true")
    ap.add_argument("--seed", type=int, default=int(os.environ.get("VERIF_SEED", "0") or 0))
    args = ap.parse_args(argv)
    try:
        if args.replay:
            return cmd_replay(args)
        if args.digests:
            return cmd_digests(args)
        return cmd_check(args)
    except SystemExit:
        raise
    except BaseException:  # noqa: BLE001
        import traceback

        print("HARNESS-ERROR " + traceback.format_exc().replace("\n", "\n    "), flush=True)
        return 2
