"""Evidence files: written by the check itself, validated against the schema before writing."""
from __future__ import annotations

import json
import os

SCHEMA = "/root/.vp/EVIDENCE.schema.json"


def write(home, prop, doc):
    os.makedirs(os.path.join(home, "evidence"), exist_ok=True)
    path = os.path.join(home, "evidence", f"{prop}.json")
    problems = validate(doc)
    if problems:
        raise RuntimeError("evidence does not validate: " + "; ".join(problems))
    tmp = path + ".tmp"
    with open(tmp, "w") as f:
        json.dump(doc, f, indent=1, sort_keys=True)
        f.write("\n")
    os.replace(tmp, path)
    return path


def validate(doc):
    try:
        import jsonschema
    except ImportError:
        return _fallback(doc)
    schema_path = SCHEMA if os.path.exists(SCHEMA) else os.path.join(
        os.path.dirname(os.path.dirname(os.path.abspath(__file__))), "schemas", "EVIDENCE.schema.json")
    if not os.path.exists(schema_path):
        return _fallback(doc)
    with open(schema_path) as f:
        schema = json.load(f)
    v = jsonschema.Draft202012Validator(schema)
    return [e.message[:200] for e in v.iter_errors(doc)]


def _fallback(doc):
    probs = []
    for k in ("property_id", "tier", "seed", "level", "coverage", "wall_s"):
        if k not in doc:
            probs.append("missing " + k)
    cov = doc.get("coverage", {})
    if cov.get("evaluations", 0) < 1:
        probs.append("evaluations < 1")
    if cov.get("distinct_nontrivial", 0) < 2:
        probs.append("distinct_nontrivial < 2")
    if not cov.get("samples"):
        probs.append("no samples")
    if not isinstance(cov.get("rule"), str):
        probs.append("no rule")
    return probs
