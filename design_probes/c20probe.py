# DESIGN-STAGE THROW-AWAY PROBE (not part of the verification machinery).
# Used once to validate an oracle formulated in DESIGN.md against the pinned tree; see DESIGN.md §3.
import magpylib as magpy, random, copy, sys, collections
from magpylib._src.style import get_style, get_families
from magpylib._src.defaults.defaults_classes import default_settings, Display
from magpylib._src.defaults.defaults_utility import get_defaults_dict, linearize_dict, magic_to_dict
rnd=random.Random(int(sys.argv[1]) if len(sys.argv)>1 else 0)
COL=['red','blue','green','#00ff00','#123456','black']
def values(leaf):
    last=leaf.split('_')[-1]
    if leaf in('label','description_text','legend_text'): return ['a','bb','c3']
    if last=='color' or last in('north','south','middle'): return COL
    if last in('show','numbering','showdefault'): return [True,False]
    if last in('size','width'): return [1,2,3.5,0.5]
    if last in('offset','transition','opacity'): return [0,0.25,0.5,1]
    if last=='sizemode': return ['scaled','absolute']
    if last=='symbol': return (['arrow3d','cone'] if 'orientation' in leaf else ['o','x','s','+'])
    if last=='style': return ['solid','dashed','dotted']
    if leaf.endswith('magnetization_mode'): return ['auto','arrow','color','arrow+color']
    if leaf.endswith('color_mode'): return ['tricolor','bicolor','tricycle']
    if last=='frames': return [1,2,(0,1)]
    if last=='pivot': return ['middle','tail','tip']
    if last=='colorsequence': return [('red','blue'),('green','black','red')]
    return None
def hard_reset():
    default_settings._display=Display(); default_settings.reset()
def mkobjs():
    return [magpy.magnet.Cuboid(), magpy.current.Circle(), magpy.Sensor(), magpy.misc.Dipole(), magpy.misc.Triangle()]
FAM={'Cuboid':['magnet'],'Circle':['current'],'Sensor':['sensor'],'Dipole':['dipole'],'Triangle':['magnet','triangle']}
DOC={k:(v.lower() if isinstance(v,str) else v) for k,v in linearize_dict(get_defaults_dict('display.style'),separator='_').items()}   # probe only: from code
issues=collections.Counter()
for trial in range(300):
    hard_reset()
    objs=mkobjs()
    S=[dict(o.style.as_dict(flatten=True,separator='_')) for o in objs]            # own style model (flat, only non-None sets)
    D=dict(DOC)                      # defaults model flat: 'magnet_magnetization_show' etc
    for step in range(10):
        k=rnd.random()
        if k<.5:   # set on object
            i=rnd.randrange(len(objs)); o=objs[i]
            leaves=[l for l in o.style.as_dict(flatten=True,separator='_') if values(l) and not l.startswith('model3d') and not l.endswith('magnetization_size')]
            leaf=rnd.choice(leaves); v=rnd.choice(values(leaf)); nota=rnd.randrange(4)
            if nota==0: o.style.update(**{leaf:v})
            elif nota==1: o.style.update(magic_to_dict({leaf:v}))
            elif nota==2:
                tgt=o.style; parts=leaf.split('_')
                for p in parts[:-1]: tgt=getattr(tgt,p)
                setattr(tgt,parts[-1],v)
            else: o.style={leaf:v}
            S[i][leaf]=v; what=('obj',type(o).__name__,leaf,nota)
        elif k<.8: # set family/base default
            fam=rnd.choice(['base','magnet','current','sensor','dipole','triangle'])
            fd=getattr(default_settings.display.style,fam)
            leaves=[l for l in fd.as_dict(flatten=True,separator='_') if values(l) and not l.startswith('model3d') and not l.endswith('magnetization_size') and l!='label']
            leaf=rnd.choice(leaves); v=rnd.choice(values(leaf)); nota=rnd.randrange(3)
            if nota==0: fd.update(**{leaf:v})
            elif nota==1: magpy.defaults.display.style.update({fam:magic_to_dict({leaf:v})})
            else:
                tgt=fd; parts=leaf.split('_')
                for p in parts[:-1]: tgt=getattr(tgt,p)
                setattr(tgt,parts[-1],v)
            D[fam+'_'+leaf]=v; what=('def',fam,leaf,nota)
        elif k<.9:
            magpy.defaults.reset(); D=dict(DOC); what=('reset',)
        else: what=('noop',)
        # checks
        actualD=linearize_dict(magpy.defaults.display.style.as_dict(),separator='_')
        for l,v in D.items():
            if actualD.get(l)!=v and not l.endswith('model3d_data'): issues[('DEFAULTS',l.split('_',1)[1] if 'magnetization' in l else l, what[0])]+=1
        for i,o in enumerate(objs):
            own=o.style.as_dict(flatten=True,separator='_')
            for l,v in S[i].items():
                if own[l]!=v and not l.endswith('magnetization_size'): issues[('OWN',l,what[0])]+=1
            showkw={}
            cand=[l for l in own if values(l) and not l.startswith('model3d') and not l.endswith('magnetization_size') and l!='label']
            if rnd.random()<.5:
                l=rnd.choice(cand); showkw['style_'+l]=rnd.choice(values(l))
            st=get_style(o, default_settings, **showkw).as_dict(flatten=True,separator='_')
            for l in own:
                if l.startswith('model3d') or l in('label','color') or l.endswith('magnetization_size'): continue
                exp=None
                if 'style_'+l in showkw: exp=showkw['style_'+l]
                elif S[i].get(l) is not None: exp=S[i][l]
                else:
                    for fam in reversed(FAM[type(o).__name__]):
                        if D.get(fam+'_'+l) is not None: exp=D[fam+'_'+l]; break
                    else: exp=D.get('base_'+l)
                if st[l]!=exp: issues[('RESOLVE',l,'kw' if 'style_'+l in showkw else 'nokw')]+=1
for k,v in sorted(issues.items(), key=lambda kv:-kv[1])[:40]: print(v,k)
print('total issue kinds',len(issues))
