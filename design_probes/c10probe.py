# DESIGN-STAGE THROW-AWAY PROBE (not part of the verification machinery).
# Used once to validate an oracle formulated in DESIGN.md against the pinned tree; see DESIGN.md §3.
import magpylib as magpy, numpy as np, random
from scipy.spatial.transform import Rotation as R
rnd=random.Random(5)
g=lambda: rnd.randrange(-16,17)/8
def rel(c,p):
    Rp=p._orientation
    return Rp.inv().apply(c._position-p._position), (Rp.inv()*c._orientation).as_quat()
def ps(new_len, arr):
    d=new_len-len(arr)
    if d>0: return np.pad(arr,((0,d),(0,0)),'edge')
    if d<0: return arr[-d:]
    return arr
viol=0;worst=0
for trial in range(1500):
    L=rnd.choice([1,2,3,4])
    def mk(cls,**k):
        o=cls(**k); o.position=[[g(),g(),g()] for _ in range(L)]
        o.orientation=R.from_rotvec([[g(),g(),g()] for _ in range(L)]); return o
    s1=mk(magpy.Sensor); s2=mk(magpy.Sensor)
    inner=magpy.Collection(s2); inner.position=[[g(),g(),g()] for _ in range(L)]; inner.orientation=R.from_rotvec([[g(),g(),g()] for _ in range(L)])
    outer=magpy.Collection(s1,inner); outer.position=[[g(),g(),g()] for _ in range(L)]; outer.orientation=R.from_rotvec([[g(),g(),g()] for _ in range(L)])
    for step in range(4):
        tgt=rnd.choice([outer,inner]); objs=[s1,inner,s2] if tgt is outer else [s2]
        others=[o for o in [outer,s1,inner,s2] if o not in objs and o is not tgt]
        ob={id(o):(o._position.copy(),o._orientation.as_quat().copy()) for o in others}
        before={id(o):rel(o,tgt) for o in objs}
        # inner op changes inner length only if we set lengths; keep inner same length as outer -> only set on outer with new L, on inner with same L
        newL=rnd.choice([1,2,3,4]) if tgt is outer else len(tgt._position)
        if rnd.random()<.5: tgt.position=[[g(),g(),g()] for _ in range(newL)]
        else: tgt.orientation=R.from_rotvec([[g(),g(),g()] for _ in range(newL)])
        for o in others:
            if not (np.array_equal(ob[id(o)][0],o._position) and np.array_equal(ob[id(o)][1],o._orientation.as_quat())): viol+=1; print('OTHER CHANGED',trial,step)
        for o in objs:
            if len(o._position)!=newL: viol+=1; print('LEN',trial,step,len(o._position),newL); continue
            p,q=rel(o,tgt); p0,q0=before[id(o)]; p0=ps(newL,p0); q0=ps(newL,q0)
            e=np.abs(p-p0).max(); dq=np.minimum(np.abs(q-q0).max(1),np.abs(q+q0).max(1)).max(); worst=max(worst,e,dq)
            if e>1e-9 or dq>1e-9: viol+=1; print('VIOL',trial,step,tgt is outer,newL,e,dq)
print('viol',viol,'worst',worst)
