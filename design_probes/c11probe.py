# DESIGN-STAGE THROW-AWAY PROBE (not part of the verification machinery).
# Used once to validate an oracle formulated in DESIGN.md against the pinned tree; see DESIGN.md §3.
import magpylib as magpy, random, sys, collections, io, contextlib
from magpylib._src.obj_classes.class_BaseExcitations import BaseSource
rnd=random.Random(int(sys.argv[1]) if len(sys.argv)>1 else 0)
POISON=len(sys.argv)>2
Coll=magpy.Collection
def flat(c, pred):
    out=[]
    for ch in c.children:
        if pred(ch): out.append(ch)
        if isinstance(ch,Coll): out+=flat(ch,pred)
    return out
def check(allobjs):
    errs=[]
    colls=[o for o in allobjs if isinstance(o,Coll)]
    # reachability through parent pointers
    extra=[]
    for o in allobjs:
        p=o._parent; n=0
        while p is not None and n<50:
            if p not in allobjs and p not in extra: extra.append(p)
            p=p._parent; n+=1
        if n>=50: errs.append('cycle-parent')
    colls+=extra
    listed=collections.Counter()
    for c in colls:
        for ch in c._children:
            listed[id(ch)]+=1
            if ch._parent is not c: errs.append('child-parent-mismatch')
        if len(set(map(id,c._children)))!=len(c._children): errs.append('dup-child')
        if c.sources!=[x for x in c.children if isinstance(x,BaseSource)]: errs.append('sources-view')
        if c.sensors!=[x for x in c.children if isinstance(x,magpy.Sensor)]: errs.append('sensors-view')
        if c.collections!=[x for x in c.children if isinstance(x,Coll)]: errs.append('collections-view')
        try:
            if c.children_all!=flat(c,lambda x:True): errs.append('children_all')
            if c.sources_all!=flat(c,lambda x:isinstance(x,BaseSource)): errs.append('sources_all')
            if c.collections_all!=flat(c,lambda x:isinstance(x,Coll)): errs.append('collections_all')
            if any(x is c for x in c.collections_all): errs.append('self-contained')
        except RecursionError: errs.append('cycle')
    for o in list(allobjs)+extra:
        if o._parent is not None and sum(1 for x in o._parent._children if x is o)!=1: errs.append('parent-not-listing')
        if listed[id(o)]>1: errs.append('two-parents')
    return errs
stats=collections.Counter(); ex=collections.Counter()
for trial in range(3000):
    leaves=[magpy.Sensor(), magpy.Sensor(), magpy.misc.Dipole(moment=(1,0,0)), magpy.misc.Dipole(moment=(1,0,0))]
    colls=[Coll() for _ in range(3)]
    pool=leaves+colls
    for step in range(10):
        c=rnd.choice(colls); k=rnd.randrange(8)
        args=[rnd.choice(pool) for _ in range(rnd.choice([1,1,2,3]))]
        if POISON and rnd.random()<.3: args.insert(rnd.randrange(len(args)+1), rnd.choice(['junk',c,args[0]]))
        try:
            with contextlib.redirect_stdout(io.StringIO()):
                if k==0: c.add(*args, override_parent=rnd.random()<.5)
                elif k==1: c.remove(*args, recursive=rnd.random()<.5, errors=rnd.choice(['raise','ignore']))
                elif k==2: args[0].parent=rnd.choice([c,None])
                elif k==3: c.children=args
                elif k==4: c.sources=args
                elif k==5: c.sensors=args
                elif k==6: c.collections=args
                elif k==7:
                    n=args[0]+args[-1]; pool.append(n); colls.append(n)
            out='ok'
        except Exception as e:
            out=type(e).__name__; ex[(k,out)]+=1
        errs=check(pool)
        for e in set(errs): stats[(k,out,e)]+=1
        if errs: break
for k,v in sorted(stats.items()): print(v,k)
print(dict(ex))
