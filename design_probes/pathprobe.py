# DESIGN-STAGE THROW-AWAY PROBE (not part of the verification machinery).
# Used once to validate an oracle formulated in DESIGN.md against the pinned tree; see DESIGN.md §3.
import magpylib as magpy, numpy as np, random, sys
from scipy.spatial.transform import Rotation as R
def qmul(a,b):
    x1,y1,z1,w1=a; x2,y2,z2,w2=b
    return np.array([w1*x2+x1*w2+y1*z2-z1*y2, w1*y2-x1*z2+y1*w2+z1*x2, w1*z2+x1*y2-y1*x2+z1*w2, w1*w2-x1*x2-y1*y2-z1*z2])
def qrot(q,v):
    x,y,z,w=q; u=np.array([x,y,z]); return v+2*np.cross(u,np.cross(u,v)+w*v)
class M:
    def __init__(s): s.P=[np.zeros(3)]; s.Q=[np.array([0,0,0,1.])]
    def pad(s,start,N,n,scalar):
        pb=pe=0
        if start=='auto': start=0 if scalar else N
        if start<0:
            start+=N
            if start<0: pb=-start; start=0
        if start+n>N+pb: pe=start+n-(N+pb)
        s.P=[s.P[0]]*pb+s.P+[s.P[-1]]*pe; s.Q=[s.Q[0]]*pb+s.Q+[s.Q[-1]]*pe
        s.P=[p.copy() for p in s.P]; s.Q=[q.copy() for q in s.Q]
        return start
    def move(s,d,start):
        d=np.array(d,float); scalar=d.ndim==1; n=1 if scalar else len(d)
        st=s.pad(start,len(s.P),n,scalar)
        if scalar:
            for i in range(st,len(s.P)): s.P[i]=s.P[i]+d
        else:
            for j in range(n): s.P[st+j]=s.P[st+j]+d[j]
    def rotate(s,q,anchor,start):
        q=np.array(q,float); scalar=q.ndim==1
        if anchor is not None:
            a=np.array(anchor,float)
            if a.ndim==2 and scalar: q=np.tile(q,(len(a),1)); scalar=False
            elif a.ndim==2 and len(a)<len(q): a=np.concatenate([a,np.tile(a[-1],(len(q)-len(a),1))])
            elif a.ndim==2 and len(a)>len(q): q=np.concatenate([q,np.tile(q[-1],(len(a)-len(q),1))])
        n=1 if scalar else len(q)
        st=s.pad(start,len(s.P),n,scalar)
        idx=range(st,len(s.P)) if scalar else range(st,st+n)
        for j,i in enumerate(idx):
            qq=q if scalar else q[j]
            if anchor is not None:
                aa=a if a.ndim==1 else a[j]
                s.P[i]=aa+qrot(qq,s.P[i]-aa)
            s.Q[i]=qmul(qq,s.Q[i])
    def setpos(s,p):
        p=np.array(p,float).reshape(-1,3); L=len(p); s.P=[x for x in p]
        if len(s.Q)<L: s.Q=s.Q+[s.Q[-1]]*(L-len(s.Q))
        else: s.Q=s.Q[len(s.Q)-L:]
    def setori(s,q):
        q=np.array(q,float).reshape(-1,4); L=len(q); s.Q=[x for x in q]
        if len(s.P)<L: s.P=s.P+[s.P[-1]]*(L-len(s.P))
        else: s.P=s.P[len(s.P)-L:]
rnd=random.Random(int(sys.argv[1]) if len(sys.argv)>1 else 0)
g=lambda: rnd.randrange(-16,17)/8
def rv(): return [rnd.randrange(-12,13)*0.25 for _ in range(3)]
bad=0; worst=0; steps=0
for trial in range(3000):
    o=magpy.Sensor(); m=M()
    for step in range(12):
        N=len(m.P); k=rnd.randrange(5); scalar=rnd.random()<.5; n=rnd.choice([1,2,3])
        start=rnd.choice(['auto','auto']+list(range(-N-3,N+4)))
        if k==0:
            d=[g() for _ in range(3)] if scalar else [[g() for _ in range(3)] for _ in range(n)]
            o.move(d,start=start); m.move(d,start)
        elif k in (1,2):
            r=R.from_rotvec(rv() if scalar else [rv() for _ in range(n)])
            am=rnd.randrange(4)
            anchor=None if am==0 else (0 if am==1 else ([g(),g(),g()] if am==2 else [[g(),g(),g()] for _ in range(rnd.choice([1,2,3]))]))
            o.rotate(r,anchor=anchor,start=start); m.rotate(r.as_quat(), (None if anchor is None else ([0,0,0] if am==1 else anchor)), start)
        elif k==3:
            L=rnd.choice([1,2,3,4]); p=[[g(),g(),g()] for _ in range(L)]
            if L==1 and rnd.random()<.5: p=p[0]
            o.position=p; m.setpos(p)
        else:
            L=rnd.choice([1,2,3,4]); r=R.from_rotvec([rv() for _ in range(L)])
            if L==1 and rnd.random()<.5: r=r[0]
            o.orientation=r; m.setori(r.as_quat())
        steps+=1
        P=np.array(m.P); Q=np.array(m.Q)
        if P.shape!=o._position.shape: bad+=1; print('LEN',trial,step,k,scalar,n,start,N,P.shape,o._position.shape); break
        e=np.abs(P-o._position).max(); dq=(R.from_quat(Q)*o._orientation.inv()).magnitude().max()
        worst=max(worst,e,dq)
        if e>1e-9 or dq>1e-9: bad+=1; print('VAL',trial,step,k,scalar,n,start,N,e,dq); break
print('steps',steps,'bad',bad,'worst',worst)
