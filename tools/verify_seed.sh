#!/bin/bash
# verify a sub-agent's seeded change in its scratch worktree: demo fails with / passes without, suite unchanged.
# (no `git stash`: the stash is shared between worktrees of one repository)
WT="$1"; cd "$WT" || exit 9
export PYTHONPATH="$WT"
git diff -- magpylib > seed_out/patch.verified.diff
[ -s seed_out/patch.verified.diff ] || { echo "NO-DIFF"; exit 8; }
timeout 300 /venv/bin/python -B seed_out/demo.py > seed_out/demo_with.log 2>&1; W=$?
timeout 900 /venv/bin/python -B -m pytest -q -p no:cacheprovider --timeout=900 --continue-on-collection-errors -q > seed_out/suite_with.log 2>&1
F=$(grep -c '^FAILED' seed_out/suite_with.log); S=$(tail -1 seed_out/suite_with.log)
git checkout -q -- magpylib
timeout 300 /venv/bin/python -B seed_out/demo.py > seed_out/demo_without.log 2>&1; O=$?
git apply seed_out/patch.verified.diff
echo "$(basename $WT): demo_with=$W demo_without=$O suite_failed=$F :: $S"
