#!/venv/bin/python
"""Regenerates MANIFEST.json (kept valid at all times); claimed set = checks registered below."""
import json, subprocess, sys, os
HOME = os.path.dirname(os.path.dirname(os.path.abspath(__file__)))
NA = {
 "C01":"pure function of (source parameters, pose, observer): no state, fault, history or schedule for a simulator to drive; deciding it needs a quadrature oracle, a different technique",
 "C02":"pointwise algebraic identity between four pure outputs; J/M synchronisation depends only on the last assigned value, not on a history",
 "C03":"symmetry relation of a pure function under the rotation group; nothing to schedule, crash or fault",
 "C04":"pure function of sensor pose, pixel array and handedness",
 "C05":"linearity/superposition of pure outputs; collection nesting is an input shape here, not a history",
 "C06":"batch composition is an input, not an interleaving; no schedule, clock or fault in the statement",
 "C07":"equivalence of call forms on identical inputs; marshalling tables are static data",
 "C12":"scale covariance of a pure function",
 "C13":"identity between different closed forms of a pure function",
 "C14":"flux/circulation identities over values of a pure function",
 "C15":"finiteness/termination depends only on the data (loop trip counts are input-determined), not on time or scheduling; a watchdog around input generation would be fuzzing, not simulation",
 "C16":"mesh status and reorientation are pure functions of the vertex/face arrays; permutations are inputs",
 "C17":"acceptance of one value at one attribute of a fresh object: no history, no interior fault point (rejected pose arguments are exercised incidentally by C09, C17 itself is not claimed)",
 "C19":"drawn geometry is a pure function of object, pose and unit setting; its non-mutation clause has no fault or history quantifier",
}
TECH = "deterministic simulation with fault injection (seeded op-and-fault histories on live objects, {oracle}, ddmin shrinking, replay files)"
CHECKS = {
 "C08": ("fault_enumeration",
   "For every sampled world and target call getB/H/J/M (all entry points, all argument combinations), every reachable crash site is exercised: each named fault point in getBH_level2 x MemoryError/KeyboardInterrupt, each invocation of each scripted CustomSource callback x raise/None/wrong shape/list/scalar/in-place mutation, field-not-implemented, FP errors raised, warnings as errors, pandas missing, and (sys.settrace) a KeyboardInterrupt at every executed line of the field_wrap_BH functions outside finally/except bodies. The iteration order of the tiled-object set is decided by the simulator. Oracle: whole world (generic walk over every attribute an object has by construction or gets from a non-field operation - private memos that only a field computation creates are not object state -, incl. style values, whether the lazily created style object exists, and pending style kwargs) and every caller array/list/container bitwise unchanged after each call, returned or raised, and the disarmed call returns the baseline bitwise. Enumeration of crash points per sampled call; sampling over worlds and calls.",
   "Trusted: the snapshot encoder (generic over vars(obj)), the six add-only fault points standing for allocation failures/interrupts, single-shot fault assumption (recovery runs fault free), world reuse between variants justified by the bitwise post==pre check (10% of runs rebuild twins by replay instead).",
   "bitwise world-snapshot oracle + per-call crash-site enumeration", "DESIGN.md §3 C08"),
 "C09": ("exploration",
   "Seeded histories of move / rotate (7 parametrisations) / position= / orientation= / reset_path on independent objects, refined step by step against an executable reference model of the documented path semantics (own quaternion algebra); rotate_from_* compared with rotate() of the equivalent rotation on a twin; all invalid-argument variants of each step (bad shapes/types, empty inputs, overflowing values) run on a twin, which must be bitwise unchanged when the call is rejected and well-formed when it is accepted; inputs are also given as live views of internal state (obj.position), as caller-owned ndarrays that are overwritten after the call, and with NumPy integer start values.",
   "Trusted: the reference model (written from the documentation, validated on the pinned tree: 0 discrepancies), SciPy as converter between rotation parametrisations, tolerance 1e-9. Sampling, bounded histories.",
   "reference-model refinement after every step + enumerated rejected variants", "DESIGN.md §3 C09"),
 "C10": ("exploration",
   "Seeded histories on shared collection trees (depth <= 3): after every op on any collection each descendant's pose in that collection's frame must equal the pose before, edge-padded/end-sliced like the collection's own path; everything outside the operated subtree bitwise unchanged; getB of the subtree at its own sensors invariant; invalid-argument variants on a twin tree must leave the whole tree bitwise unchanged; inputs include live views of other members' paths (also wrapped/reversed) and augmented assignment. One genuine defect is recorded as a known finding (C10-c: coll.position += d, live-view getter) and printed as KNOWN-FINDING.",
   "Trusted: own quaternion algebra for relative poses, padding maps from the C09 model, generator maintains the property's precondition (members share the collection's path length). Tolerances 1e-9 (poses), rtol 1e-7 (field, guarded against near-surface observers).",
   "relative-pose invariant after every step + enumerated rejected variants on twin trees", "DESIGN.md §3 C10"),
 "C11": ("fault_enumeration",
   "Seeded histories of tree-editing operations (add, remove, parent=, the four typed setters incl. augmented assignment, +, copy, Collection(...), arguments also given as the live lists behind the public views); at every step every recorded poison (position x kind) variant of that step's operation is executed on a twin world, and the forest invariants I1-I4 are checked after every call, returned or raised. Sampling over histories, enumeration over rejection points within each sampled step.",
   "Trusted: the invariant checker (reads _parent/_children and the public views), the twin-world mirror (cross-checked against replay-rebuilt twins in 10% of runs). Bounded pools/histories; sampling, not proof.",
   "forest-invariant oracle after every call + enumerated poison variants on twin worlds", "DESIGN.md §3 C11"),
 "C18": ("exploration",
   "Seeded copy-then-mutate histories over attribute-rich worlds (all classes, parents, lazy/initialised styles, keyword overrides): equality, parentlessness, consistency and disjointness of the copied subtree right after the copy; after every later mutation of one side the other side's snapshot must be bitwise unchanged; failing copies (bad kwargs at each position, un-deep-copyable attachment at each subtree position, parent= keyword followed by a rejected input) must leave the original world unchanged; the copy's label must be the documented iteration.",
   "Trusted: the generic snapshot encoder (style states canonicalised), mutation catalogue. Sampling over histories.",
   "twin-side independence oracle (bitwise snapshots) + enumerated failing copies", "DESIGN.md §3 C18"),
 "C20": ("exploration",
   "Seeded histories of style writes through every notation and layer (object, family default, base default, show kwargs), resets and copies, refined leaf by leaf against a four-layer reference model; 13 notations incl. mixed ones, dictionary assignment to sub-styles, string shortcuts and documented colour input forms; invalid leaf/value variants of each step (incl. names of methods) must be rejected without being stored; non-addressed objects, the defaults, the non-style display settings and every dictionary/list the caller passed in must be unchanged; reset() and display.style.reset() restore the frozen documented defaults.",
   "Trusted: the style reference model and its frozen copy of the documented defaults, the leaf-kind value table; interpreter runs without -O. Sampling over histories.",
   "four-layer reference-model refinement after every step + enumerated invalid variants", "DESIGN.md §3 C20"),
}
def main():
    claimed = [c for c in sys.argv[1:]] or ["C11"]
    hooks = subprocess.run(["git","-C","/repo","log","--format=%h %s"],capture_output=True,text=True).stdout.splitlines()
    hook_commits = [l.split()[0] for l in hooks if l.split(" ",1)[1].startswith("verif hooks")]
    checks = []
    for pid in claimed:
        level, text, note, oracle, ref = CHECKS[pid]
        checks.append({"property_id":pid,"quick_cmd":f"./check {pid} --tier quick","thorough_cmd":f"./check {pid} --tier thorough",
          "evidence_file":f"evidence/{pid}.json","replay_cmd_template":f"./check {pid} --replay {{path}}","engine":"simsession",
          "level_claimed":{"category":level,"text":text,"design_ref":ref},"level_note":note,"technique":TECH.format(oracle=oracle)})
    na = dict(NA)
    for pid in CHECKS:
        if pid not in claimed:
            na[pid] = "claimed in DESIGN.md but its check is not registered yet (under construction); not decided here"
    m = {"version":1,"setup_cmd":"./check setup",
      "hooks":{"guard":"MAGPYLIB_VERIF","enable":"MAGPYLIB_VERIF=1 in the environment (set by ./check); pure Python, nothing to build",
               "baseline_off_cmd":"cd /repo && env -u MAGPYLIB_VERIF /venv/bin/python -m pytest -ra -q -p no:cacheprovider --timeout=900 --continue-on-collection-errors",
               "source_commits":hook_commits,"add_only":True},
      "engines":[{"name":"simsession","path":"simsession/","serves_properties":claimed,
                  "kind_free_text":"deterministic session simulation with fault injection: seeded op-and-fault histories over a pool of live magpylib objects plus the process-global defaults, twin worlds, invariant / reference-model oracles after every step, ddmin shrinking, replay files, known-findings protocol"}],
      "checks":checks,
      "not_applicable":[{"property_id":k,"reason":v} for k,v in sorted(na.items())],
      "notes":"See DESIGN.md. One integer (VERIF_SEED) decides every run; exit 0 = held (KNOWN-FINDING lines possible), exit 1 + VIOLATION line = violation with replay file, exit 2 + HARNESS-ERROR = not a verdict. ./check selftest determinism|mutants|seeded gate trust in the checks."}
    json.dump(m, open(os.path.join(HOME,"MANIFEST.json"),"w"), indent=1)
    import jsonschema
    jsonschema.validate(m, json.load(open(os.path.join(HOME,"schemas","MANIFEST.schema.json"))))
    print("MANIFEST ok:", claimed)
main()
