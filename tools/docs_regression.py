"""Regression aid (not a registered check): runs the python code blocks of /repo/docs against a given tree and writes
exit status + stdout per markdown file as JSON.  Usage: docs_regression.py <tree> <out.json>; run it for the pinned base
commit (scratch worktree) and for /repo and compare the two files."""
import re, sys, os, subprocess, glob, json, hashlib
root = sys.argv[1]  # worktree whose code to import
docs = sorted(glob.glob('/repo/docs/_pages/**/*.md', recursive=True))
out = {}
PRE = '''
import matplotlib; matplotlib.use("Agg")
import warnings; warnings.filterwarnings("ignore")
import numpy as np; np.set_printoptions(precision=6, suppress=True)
import magpylib as _m
_orig_show = _m.show
def _show(*a, **k):
    k.setdefault("backend", "plotly") if False else None
    k["return_fig"] = True
    try:
        fig = _orig_show(*a, **k)
    except TypeError:
        k.pop("return_fig"); fig = _orig_show(*a, **k)
    print("SHOW", type(fig).__name__)
    return fig
_m.show = _show
import matplotlib.pyplot as _plt
_plt.show = lambda *a, **k: print("PLT.SHOW")
'''
for md in docs:
    txt = open(md).read()
    blocks = re.findall(r"```(?:\{code-cell\}[^\n]*|python)\n(.*?)```", txt, flags=re.S)
    if not blocks:
        continue
    blocks = ["\n".join("\n".join(l for l in b.splitlines() if not l.startswith(":")) for b in blocks if "pyvista" not in b and "pv." not in b)]
    for bi, b in enumerate(blocks):
        # strip code-cell options (lines starting with ':' at the top)
        lines = b.splitlines()
        while lines and (lines[0].startswith(':') or not lines[0].strip()):
            lines.pop(0)
        code = PRE + "\n".join(lines)
        if 'pyvista' in code or 'pv.' in code or 'animation' in code and 'output' in code:
            out[f"{os.path.basename(md)}#{bi}"] = ("skip", "")
            continue
        try:
            p = subprocess.run(['/venv/bin/python', '-B', '-c', code], capture_output=True, text=True, timeout=400,
                               env=dict(os.environ, PYTHONPATH=root, MPLBACKEND='Agg', PYTHONHASHSEED='0'), cwd='/tmp/docrun')
            res = (p.returncode, re.sub(r"id=\d+", "id=N", p.stdout)[-3000:] + ("\nERR:" + p.stderr.strip().splitlines()[-1] if p.returncode else ""))
        except subprocess.TimeoutExpired:
            res = ("timeout", "")
        out[f"{os.path.basename(md)}#{bi}"] = res
json.dump(out, open(sys.argv[2], 'w'), indent=1)
print(len(out), sum(1 for v in out.values() if v[0] == 0), "ok")
